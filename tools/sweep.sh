#!/bin/bash
# tools/sweep.sh <tier> <seeds...> — run every registered check at the given seeds; one summary line each.
# (uses a private VERIF_DIR copy's evidence only when run from a snapshot; in /verif it rewrites evidence files)
TIER="$1"; shift
cd "$(dirname "$0")/.."
for seed in "$@"; do
  for i in 01 02 03 04 05 06 07 08 09 10 11 12 13 14 15 16 17 18 19 20; do
    out=$(VERIF_SEED=$seed ./check C$i $TIER 2>&1)
    rc=$?
    echo "seed=$seed rc=$rc $(echo "$out" | grep '^RESULT' | cut -c1-170) $(echo "$out" | grep -c '^VIOLATION') viol-lines $(echo "$out" | grep -c '^INCONCLUSIVE') inconclusive"
    if [ $rc -ne 0 ]; then echo "$out" | grep '^VIOLATION\|^INCONCLUSIVE\|^BROKEN' | head -5 | cut -c1-400; fi
  done
done
