#!/bin/bash
# tools/seeded_all.sh [tier]   run every stored seeded change through its
# property's check (applies to /repo, restores after each). Prints one
# CAUGHT / MISSED line per change and a summary; exit 1 if any is missed.
set -u
TIER="${1:-quick}"
cd /verif || exit 2
miss=0; n=0
for d in seeded/*/; do
  id=$(basename "$d"); p=${id%%-*}
  out=$(tools/mutcheck.sh "$p" "/verif/$d/patch.diff" "$TIER" 2>&1 | grep -v conda.cli)
  n=$((n+1))
  case "$out" in CAUGHT*) ;; *) miss=$((miss+1));; esac
  echo "$id :: $(echo "$out" | cut -c1-200)"
done
echo "SEEDED-SUMMARY total=$n missed=$miss tier=$TIER"
[ "$miss" -eq 0 ]
