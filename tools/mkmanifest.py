#!/usr/bin/env python3
"""Regenerates MANIFEST.json from the table below (kept in one place so the
manifest is always schema-valid)."""
import json, subprocess, os
BASE = "for m in $(cat /w/out/gomods.txt); do MF=$(cd /repo/$m && . /w/out/goenv.sh && gomodflag); (cd /repo/$m && go test $MF -json -vet=off -count=1 -timeout 25m ./...); done"
checks = {
 "C01": ("AST-first generator + structural comparison oracle over ParseQuery results (runtime reference-model monitor)", "3.C01",
         "Every clause subset of all 44 statement kinds plus random payloads and spellings are parsed and compared structurally with the AST the generator intended; held on the cases in the evidence file only.",
         "generator's grammar model (README + parser extensions) and astx dump equality are trusted"),
 "C02": ("print/re-parse metamorphic monitor with structural (astx) comparison and delta attribution of the unary-minus finding", "3.C02",
         "Every accepted statement of the workload is printed and re-parsed; structural identity is required, password text exempt.", "astx dump equality; password re-insertion by the harness's own quoting"),
 "C03": ("independent precedence-climbing reference grouper vs ParseExpr shape; exhaustive chains k<=3/4", "3.C03",
         "All operator chains up to k=3 (4 in thorough) are enumerated completely, longer ones sampled; both grouping and print/re-parse grouping are checked.", "five levels as written in the property"),
 "C05": ("hooked rune accounting (VerifConsumed) + independent text folding: tiling, content and position monitor over Scanner.Scan / ScanRegex", "3.C05",
         "Token extents are measured by the verif hook counter, independently of reported positions; all ordered pairs of lexeme spellings x separators enumerated, longer texts sampled; ParseError.Pos checked with an injected illegal token at every token boundary.", "hook counter in reader (build tag verif); NUL outside the domain"),
 "C06": ("scanner-as-oracle inversion monitor over every Unicode scalar + template AST comparison in 14 statement slots", "3.C06",
         "QuoteString/QuoteIdent/IdentNeedsQuotes against the scanner for every Unicode scalar (alone and embedded), all short hostile-alphabet strings, keywords, random strings; quoted values in 14 slots must yield the template AST or an error.", "expressible = valid UTF-8 without NUL/CR"),
 "C08": ("big-integer reference arithmetic monitor over ParseDuration / duration literals / FormatDuration", "3.C08",
         "Exhaustive boundary grid around every k*2^63/unit wrap point, multi-component sums, 17 statement slots, format/parse round trip on boundary and random int64.", "math/big as reference"),
 "C09": ("metamorphic monitor Reduce vs ValuerEval over exhaustive typed cells and random trees; absolute oracle for time arithmetic", "3.C09",
         "Every well-typed (operator, kind, kind) cell x boundary values x 9 binding placements, random typed trees, time-arithmetic grid in three zones.", "ValuerEval with IntegerFloatDivision is the reference value"),
 "C11": ("language comparison by enumeration: EvalBool before/after RewriteRegexConditions over all strings up to a length bound", "3.C11",
         "360k regex conditions (prefix x body x suffix) incl. 99/100/101-member alternations; every rewritten condition compared on all strings of length <=4 over 8 symbols plus each substituted literal.", "Go regexp through EvalBool is the meaning of the original condition"),
 "C20": ("constraint-specification oracle over exhaustive field lists (length <=3/4) for ColumnNames", "3.C20",
         "All field lists up to length 3 (4 thorough) over 12 atoms x 5 aliases, with/without INTO, OmitTime and time alias variants, random longer lists.", "default-name rules as stated in the evidence assumptions"),
}
checks.update({
 "C13": ("panic observer (recover at the call boundary + process exit status) around 25 public operations, each on a fresh re-parse, over grammar-derived and 'odd but accepted' statements", "3.C13",
         "Every accepted statement of the workload goes through every listed operation; a recovered panic in any of them is a violation. Held on the statements listed in the evidence only.", "operations listed in the evidence assumptions; errors are acceptable outcomes"),
 "C14": ("structural snapshot + reflective aliasing monitor + step-by-step history monitor over in-place operations and reflective pokes", "3.C14",
         "Clone/CloneExpr/Measurement.Clone results are compared structurally and walked for shared mutable nodes; 1-6 in-place operations on one side with the other side's dump compared after every step; derived operations checked for receiver change.", "*regexp.Regexp and *time.Location may be shared; unexported memo ignored"),
 "C15": ("marker-search oracle over String() and Sanitize() with exact source spans of the password literal from the renderer", "3.C15",
         "Password statements with marker-built passwords, hostile user names and layouts (incl. comments and multi-statement texts); marker leak search and exact preservation of text outside the literal span; Sanitize(t)==t for other kinds.", "only parser-accepted texts are judged"),
 "C16": ("metamorphic monitor: baseline AST vs AST after every whitespace substitution / comment insertion at every gap; statement joins vs stand-alone parses", "3.C16",
         "Every whitespace gap of the chosen statements x 6 whitespace substitutions x 6 comment forms is enumerated (not sampled); 2-5 statement joins with empty statements, trailing separators and missing separators.", "gaps come from the renderer's token boundaries"),
 "C19": ("generator-knowledge oracle (databases of all measurements at any depth, INTO database) over RequiredPrivileges of all statement kinds", "3.C19",
         "All clause subsets of all 44 kinds (non-empty list, no error, admin flag for administrative kinds); SELECT / EXPLAIN with subqueries to depth 5 and every INTO form (read on every source database, write on the target).", "distinct database names per slot"),
})
checks.update({
 "C04": ("panic / fatal-error observer in child processes with per-input journals + scanner hook assertions (push-back depth) + logical-time step budget (scanner steps per input rune) over mutated, random and structured-stress inputs", "3.C04",
         "Grammar-derived inputs with 1-4 mutations, random bytes, token soups, parameter maps of every bindable and unbindable kind, nesting/list/token stress; every input through ParseQuery, ParseStatement and ParseExpr; accepted results printed, walked and rewritten. Hangs and super-linear scanning are decided by the step budget, not wall-clock.", "hook counters in the scanner (tag verif); inputs up to 1 MB / depth 1e5; the 2e6-deep nesting stack overflow is a recorded known finding"),
 "C07": ("token-level template oracle: bound-parameter parse vs parse of the literal-written form (harness quoting), structure check for inexpressible values, must-error variants", "3.C07",
         "Templates from all statement kinds with 1-3 placeholders in every name / literal / regex / duration / count position; benign and hostile values of every Go/JSON kind; unbound, unbindable and empty placeholders must fail.", "literal form rendered by the harness's own quoting"),
 "C10": ("reference point-evaluator monitor: original condition vs (in-range AND residual) on boundary points; exact bound comparison", "3.C10",
         "Random conjunction trees of time bounds (every literal form, either side, any case, three zones, int64 extremes) and other predicates, evaluated on every bound +-1ns x all tag/field combinations.", "harness evaluator is the meaning of the condition; float bounds and != outside the domain"),
 "C12": ("independent schema-expansion model vs RewriteFields, with repeated calls over fresh (re-randomised) maps for determinism", "3.C12",
         "Random schemas (conflicting types, shadowing tags, empty/unknown measurements, subqueries to depth 3) x SELECTs with wildcards / regexes in field, call-argument and dimension position; names, types, order, positions, aliases of expanded calls, typed references; 12 repeats each.", "model written from the property text; measurement with tags has at least one field"),
 "C17": ("Go race detector (-race build, GORACE logs of a child) + sequential-twin functional oracle + in-flight overlap matrix over shared-AST operations", "3.C17",
         "Rounds of 64 goroutines on 16 cores: read-only operations on 6 shared ASTs and independent parse / quote / format / sanitize calls; every result equals its sequential twin; every pair of shared operation kinds was observed in flight together (floor).", "race detector reports accesses unordered in observed runs; interleavings are those the scheduler produced"),
 "C18": ("history monitor over SetTimeRange call sequences observed through ConditionExpr with the reference point-evaluator", "3.C18",
         "Initial conditions with time bounds on either side / any case / now()-relative, top-level OR, none; 1-8 windows (CQ-style, random, repeated, empty, sub-second, extremes); exact range, exactly two time comparisons, constant node count, point agreement after every call.", "observation through ConditionExpr as the property prescribes"),
})
# what the later rounds of seeded changes added to each check (DESIGN.md section 9)
STATE = {
 "C01": " Also: comments in the random layout, multi-statement queries, customised Language clones, texts of up to 120000 elements, same-checksum pairs of regexes / names / strings, a probe process that assigns time.Local between two parses of tz('Local').",
 "C02": " Also: about 900 frontier texts judged if accepted, look-alike name pairs printed in both orders, prints directly after a 70 KB - 1.4 MB print, every reserved word in three casings as a quoted name in every name slot.",
 "C03": " Also: chains of up to 260 operators and deep left spines, caller edits of sign factors before the run, a parser reused after 300000 failed expressions, print / edit in place / print again, a print directly after an aborted print.",
 "C04": " Also: bytes allocated for a text of n against 4n bytes (21 families), long histories of distinct zones / regexes / names, 70000 statements through one parser, results staying usable under later calls on the same parser.",
 "C05": " Also: readers that deliver the text in pieces, with EOF, or followed by a persistent error; error positions behind characters outside the language through both entry points; errors after another parse against a parser made for the text alone.",
 "C06": " Also: look-alike and same-checksum name pairs in both orders, values of up to 2 MB, the caller's slice spread into QuoteIdent, a reader that fails transiently inside the quoted value, hand-built statements with one node as target and source.",
 "C07": " Also: SetParams twice / with nil, one parser reading the template several times with bindings replaced in between (also after an end of input, and before each of nine expression lines), the caller overwriting its map after SetParams.",
 "C08": " Also: 25 statement slots incl. zero and INF, signed literals, one parser reading a spelling five times going on after errors, similar long spellings in sequence, the caller overwriting every duration of a parsed statement.",
 "C09": " Also: stacked valuers and pure functions, casts on bound references, far instants, ns counts as durations, the clock carried in a location, same-checksum timestamp pairs.",
 "C10": " Also: wall-clock literals next to offset changes in six zones, stacked and zone-less valuers, time literals a caller converted and changed beforehand, hand-built ranges through TimeRange.Intersect.",
 "C11": " Also: multi-predicate conditions, whole sources with anchors inside alternations, UTF-8 width boundaries, limit sums, the caller editing the literals of a rewritten condition.",
 "C12": " Also: arithmetic subquery columns incl. unsigned, mappers that hand out cached maps, names and regexes whose joined texts coincide, in both orders.",
 "C13": " Also: random operation sequences, 1800 distinct-value statements in one process, a stream read by one parser that carries on after errors, a schema per measurement with empty sets handed out as nil maps.",
 "C14": " Also: operations before the clone, interleaved schedules with each side compared to its own operations run alone, emptied lists with capacity, hand-built INTO targets, derived statements of receivers that were asked before, a probe process that clones TZ('Local') before local time was used.",
 "C15": " Also: blank-like separators, split literals, bound user names, look-alike keyword letters, clause words inside quoted names / strings / regexes / comments (four open findings), same-checksum text and literal pairs, a print after a rejected mistyped variant.",
 "C16": " Also: 38 comment shapes (line comments ended by LF, CRLF and a lone CR), CR / LF combinations read in pieces, queries of up to 35001 statements, a zone spelled in two letter cases in one query.",
 "C17": " Also: fresh processes whose first library calls are made by 24 goroutines at once, hand-built INTO targets in shared ASTs, results of ScanDelimited kept across later scans, string time bounds resolved in five named zones concurrently.",
 "C18": " Also: windows carried in locations whose offsets have seconds, edits between windows, own-output-shaped conditions with inner bounds, an ordinary call directly after a refused one, same-checksum condition pairs.",
 "C19": " Also: INTO at every depth, in-place edits between calls, the caller overwriting the returned list, 1-1000 sources, reserved system names, a call while a source slot is nil followed by the repaired statement.",
 "C20": " Also: lists of 60-140 fields, renames and flag flips in place, blank time aliases, statements built with shared nodes, statements expanded by RewriteFields and edited afterwards, a call directly after an aborted call.",
}
pending = {}
order = ["C%02d"%i for i in range(1,21)]
extra = json.load(open('/verif/tools/manifest_extra.json')) if os.path.exists('/verif/tools/manifest_extra.json') else {}
for k,v in extra.get('checks',{}).items(): checks[k]=tuple(v)
na = extra.get('not_applicable', {})
commits = subprocess.check_output(['git','-C','/repo','log','--format=%H %s']).decode().strip().split('\n')
hook_commits = [c.split()[0] for c in commits if c.split(' ',1)[1].startswith('verif hooks')]
m = {
 "version": 1,
 "setup_cmd": "cd /verif/harness && cp -f /repo/go.sum go.sum && GOFLAGS=-mod=mod GOPROXY=off GOSUMDB=off GOTOOLCHAIN=local go build -tags verif -o bin/vcheck ./cmd/vcheck",
 "hooks": {"guard": "verif", "enable": "go build -tags verif (the ./check script builds harness/cmd/vcheck with -tags verif against /repo through a module replace)",
           "baseline_off_cmd": BASE, "source_commits": hook_commits, "add_only": True},
 "engines": [{"name": "vcheck", "path": "harness/cmd/vcheck", "serves_properties": [p for p in order if p in checks], "kind_free_text": "Go runtime monitors: generators + oracles observing the real influxql code built with -tags verif (and -race for C17)"}],
 "checks": [], "not_applicable": [],
 "notes": "All checks are runtime monitors (see DESIGN.md). Known findings live in known_findings.json / KNOWN_FINDINGS.md. ./check <ID> quick|thorough|--replay <file>.",
}
for p in order:
    if p in checks:
        tech, ref, text, note = checks[p]
        m["checks"].append({"property_id": p, "quick_cmd": "./check %s quick"%p, "thorough_cmd": "./check %s thorough"%p, "evidence_file": "evidence/%s.json"%p,
            "replay_cmd_template": "./check %s --replay {path}"%p, "engine": "vcheck",
            "level_claimed": {"category": "exploration", "text": text + STATE.get(p, ""), "design_ref": "DESIGN.md section "+ref}, "level_note": note, "technique": tech})
    else:
        m["not_applicable"].append({"property_id": p, "reason": na.get(p, "monitor for this property is designed in DESIGN.md but not yet built and calibrated in this round; not claimed until it is")})
json.dump(m, open('/verif/MANIFEST.json','w'), indent=1)
print("checks:", [c["property_id"] for c in m["checks"]], "na:", [n["property_id"] for n in m["not_applicable"]])
