#!/usr/bin/env python3
"""tools/mkseededtable.py <seeded_all.log> [prefix-filter]
Prints the markdown table of stored seeded changes (DESIGN.md section 9) from
seeded/*/meta.json and the CAUGHT / MISSED lines of tools/seeded_all.sh."""
import json, os, re, sys
log = open(sys.argv[1]).read() if len(sys.argv) > 1 else ""
flt = sys.argv[2] if len(sys.argv) > 2 else ""
res = {}
for line in log.splitlines():
    m = re.match(r"(\S+) :: (CAUGHT|MISSED)\S* .*?(?:replay=\S+ (\S+))?", line)
    if m:
        kind = re.search(r"replay=\S+ (\S+)", line)
        res[m.group(1)] = (m.group(2), kind.group(1) if kind else "")
def cell(s, n):
    s = (s or "").replace("|", "/").replace("\n", " ")
    return s[:n]
print("| seeded change | property | what was changed | needs, to manifest | caught by |")
print("|---|---|---|---|---|")
for d in sorted(os.listdir("/verif/seeded")):
    if flt and flt not in d:
        continue
    m = json.load(open("/verif/seeded/%s/meta.json" % d))
    r = res.get(d, ("?", ""))
    by = "%s quick (%s)" % (m["property"], r[1]) if r[0] == "CAUGHT" else r[0]
    print("| %s | %s | %s | %s | %s |" % (d, m["property"], cell(m.get("summary"), 150), cell(m.get("needs"), 170), by))
