#!/usr/bin/env python3
# tools/violsum.py <ID> [n]  — summarise replay files of the latest run
import json,sys,glob,collections,re
pid=sys.argv[1]; n=int(sys.argv[2]) if len(sys.argv)>2 else 15
c=collections.Counter(); ex={}
for f in glob.glob('/verif/replay/%s/*.json'%pid):
    try: d=json.load(open(f))
    except Exception: continue
    why=re.sub(r'[0-9]+','N',d.get('why',''))[:110]
    k=(d.get('kind'),d.get('sub'),why)
    c[k]+=1; ex.setdefault(k,(d.get('input','')[:260],d.get('why','')[:300],f))
for k,v in c.most_common(n):
    print(v,k[0],k[1]); print('    why:',ex[k][1].replace('\n','\\n')); print('    in :',repr(ex[k][0])); print('    ',ex[k][2])
