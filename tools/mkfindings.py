#!/usr/bin/env python3
"""Regenerates KNOWN_FINDINGS.md (human-readable mirror, in the line format of
the brief) from known_findings.json, which is what the checks read."""
import json
f=json.load(open('/verif/known_findings.json'))['findings']
out=["# Known findings and repaired defects","",
"Machine-readable source: `known_findings.json` — read by every check at start-up, never written at run time.",
"A discrepancy is downgraded to a `KNOWN-FINDING:` line only when the check's classifier recognises the precise shape of an entry whose status is `open`; `fixed` entries suppress nothing (a regression is an ordinary VIOLATION).","",
"## Open (genuine defects recorded rather than repaired)",""]
for e in f:
    if e['status']=='open':
        out.append("KNOWN-FINDING: property=%s %s — %s  (witness: `%s`)"%(e['property'],e['key'],e['what'],e.get('witness','')))
out+=["","## Repaired (one `fix:` commit each in /repo)",""]
for e in f:
    if e['status']=='fixed':
        out.append("fixed: property=%s %s %s — %s"%(e['property'],e.get('commit','?'),e['key'],e['what']))
open('/verif/KNOWN_FINDINGS.md','w').write("\n".join(out)+"\n")
print(sum(1 for e in f if e['status']=='open'),'open',sum(1 for e in f if e['status']=='fixed'),'fixed')
