#!/bin/bash
# tools/verify_seeded.sh <dir-with-mK.diff,mK_demo_test.go> <K> — confirm a seeded change in a scratch worktree of /repo HEAD:
# applies, still compiles and passes the existing suite, its demonstration fails with it and passes without it.
set -u
export GOFLAGS=-mod=mod GOPROXY=off GOSUMDB=off GOTOOLCHAIN=local
D="$1"; K="$2"; WT=$(mktemp -d /tmp/seedwt.XXXXXX)
git -C /repo worktree add -q --detach "$WT" HEAD || exit 2
res=""
cd "$WT"
RACE=""; grep -qi '"needs".*-race\|go test -race' "$D/m$K.json" 2>/dev/null && RACE="-race"
cp "$D/m${K}_demo_test.go" ./zz_seeded_demo_test.go
if go test -vet=off -count=1 $RACE -run TestSeeded ./... >/dev/null 2>&1; then res="$res clean-demo:PASS"; else res="$res clean-demo:FAIL"; fi
rm -f zz_seeded_demo_test.go
if git apply --3way "$D/m$K.diff" >/dev/null 2>&1 || git apply "$D/m$K.diff" >/dev/null 2>&1; then
  res="$res apply:OK"
  if go build ./... >/dev/null 2>&1 && go build -tags verif ./... >/dev/null 2>&1; then res="$res build:OK"; else res="$res build:FAIL"; fi
  if go test -vet=off -count=1 ./... >/dev/null 2>&1; then res="$res suite:PASS"; else res="$res suite:FAIL"; fi
  cp "$D/m${K}_demo_test.go" ./zz_seeded_demo_test.go
  if go test -vet=off -count=1 $RACE -run TestSeeded ./... >/dev/null 2>&1; then res="$res mutant-demo:PASS(not-broken)"; else res="$res mutant-demo:FAIL(as-wanted)"; fi
  git diff HEAD -- . ':!zz_seeded_demo_test.go' > "$D/m$K.rebased.diff"
else
  res="$res apply:FAILED"
fi
cd /; git -C /repo worktree remove --force "$WT"
echo "$(basename $D) m$K:$res"
