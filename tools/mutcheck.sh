#!/bin/bash
# tools/mutcheck.sh <property> <patch.diff> [tier]
# Applies a seeded change to /repo, runs the property's check, and always
# restores /repo afterwards. Prints CAUGHT / MISSED.
set -u
P="$1"; PATCH="$2"; TIER="${3:-quick}"
cd /repo || exit 2
if [ -n "$(git status --porcelain)" ]; then echo "repo not clean"; exit 2; fi
if ! git apply --3way "$PATCH" 2>/dev/null && ! git apply "$PATCH"; then echo "APPLY-FAILED $PATCH"; git reset -q --hard HEAD; exit 2; fi
cd /verif
out=$(./check "$P" "$TIER" 2>&1)
rc=$?
cd /repo && git reset -q --hard HEAD && git clean -fdq
nv=$(echo "$out" | grep -c '^VIOLATION')
if [ $rc -ne 0 ] && [ "$nv" -gt 0 ]; then echo "CAUGHT $P $(basename $(dirname $PATCH))/$(basename $PATCH) violations_printed=$nv :: $(echo "$out" | grep '^VIOLATION' | head -1 | cut -c1-260)"; else echo "MISSED $P $PATCH rc=$rc :: $(echo "$out" | tail -2 | cut -c1-200)"; fi
