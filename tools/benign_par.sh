#!/bin/bash
# tools/benign_par.sh <dir-with-*.diff files or benign/> [workers]
# False-alarm test: every patch is a change that keeps all 20 properties, so
# every quick check must stay silent on it. Each worker has its own scratch
# worktree of /repo HEAD and its own copy of the harness; /repo and
# /verif/evidence are not touched. Prints "<patch> :: SILENT" or
# "<patch> :: ALARM <ids>" lines; exit 1 if anything alarmed.
set -u
SRC="${1:-/verif/benign}"; W="${2:-4}"
export GOFLAGS=-mod=mod GOPROXY=off GOSUMDB=off GOTOOLCHAIN=local
ROOT=/tmp/benign_par
rm -rf "$ROOT"; git -C /repo worktree prune; mkdir -p "$ROOT"
find "$SRC" -name '*.diff' | sort > "$ROOT/list"
IDS="${BENIGN_IDS:-C01 C02 C03 C04 C05 C06 C07 C08 C09 C10 C11 C12 C13 C14 C15 C16 C17 C18 C19 C20}"   # BENIGN_IDS="C03 C12" restricts the checks
worker() {
  w=$1
  RW="$ROOT/repo$w"; HW="$ROOT/harness$w"; VD="$ROOT/verif$w"
  git -C /repo worktree add -q --detach "$RW" HEAD || return
  mkdir -p "$VD/evidence" "$VD/harness/bin"
  cp /verif/known_findings.json "$VD/"
  rsync -a --exclude bin /verif/harness/ "$HW/"
  sed -i "s#=> /repo#=> $RW#" "$HW/go.mod"
  cp "$RW/go.sum" "$HW/go.sum"
  i=0
  while read -r d; do
    i=$((i+1)); [ $(( i % W )) -eq "$w" ] || continue
    id=$(echo "$d" | sed "s#^$SRC/##")
    cd "$RW" || return
    if ! git apply "$d" 2>/dev/null; then
      echo "$id :: APPLY-FAILED"; git reset -q --hard HEAD; continue
    fi
    if ! (cd "$HW" && go build -tags verif -o "$VD/harness/bin/vcheck" ./cmd/vcheck 2> "$VD/build.log" \
          && go build -race -tags verif -o "$VD/harness/bin/vcheck-race" ./cmd/vcheck 2>> "$VD/build.log" \
          && go build -race -tags verif -o "$VD/harness/bin/vfirst-race" ./cmd/vfirst 2>> "$VD/build.log" \
          && go build -tags verif -o "$VD/harness/bin/vfirst" ./cmd/vfirst 2>> "$VD/build.log"); then
      echo "$id :: BUILD-FAILED $(head -3 "$VD/build.log" | tr '\n' ' ')"
      cd "$RW" && git reset -q --hard HEAD && git clean -fdq; continue
    fi
    alarms=""
    for p in $IDS; do
      bin="$VD/harness/bin/vcheck"; vf="$VD/harness/bin/vfirst"
      [ "$p" = "C17" ] && bin="$VD/harness/bin/vcheck-race" && vf="$VD/harness/bin/vfirst-race"
      out=$(cd "$VD" && VERIF_DIR="$VD" VCHECK_BIN="$bin" VFIRST_BIN="$vf" timeout 1800 "$bin" "$p" quick 2>&1); rc=$?
      if [ "$rc" -ne 0 ]; then
        alarms="$alarms $p(rc=$rc)"
        mkdir -p "$ROOT/alarms"; echo "$out" | grep -a '^VIOLATION\|^RESULT\|INCONCLUSIVE' | head -8 > "$ROOT/alarms/$(echo "$id" | tr '/' '_').$p.txt"
      fi
    done
    cd "$RW" && git reset -q --hard HEAD && git clean -fdq
    if [ -z "$alarms" ]; then echo "$id :: SILENT"; else echo "$id :: ALARM$alarms"; fi
  done < "$ROOT/list"
  cd /; git -C /repo worktree remove --force "$RW"
}
for w in $(seq 0 $((W-1))); do worker "$w" > "$ROOT/out$w" 2>&1 & done
wait
cat "$ROOT"/out* | sort > "$ROOT/all"
cat "$ROOT/all"
n=$(grep -c . "$ROOT/all"); bad=$(grep -vc ' :: SILENT' "$ROOT/all")
echo "BENIGN-SUMMARY total=$n not_silent=$bad workers=$W head=$(git -C /repo rev-parse --short HEAD)"
git -C /repo worktree prune
cp "$ROOT/all" /tmp/benign_par_last.log
rm -rf /tmp/benign_alarms; [ -d "$ROOT/alarms" ] && cp -r "$ROOT/alarms" /tmp/benign_alarms
rm -rf "$ROOT"
[ "$bad" -eq 0 ]
