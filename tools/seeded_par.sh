#!/bin/bash
# tools/seeded_par.sh [workers] [filter]   like seeded_all.sh, but every worker
# has its own scratch copy of /repo (a git worktree of HEAD) and of the harness
# (module replace pointed at that copy), so /repo and /verif/evidence are not
# touched and several seeded changes are tried at once. Scratch lives under
# /tmp/seeded_par and is removed at the end. Prints CAUGHT / MISSED lines and a
# summary; exit 1 if any change is missed.
set -u
W="${1:-4}"; FILTER="${2:-}"
export GOFLAGS=-mod=mod GOPROXY=off GOSUMDB=off GOTOOLCHAIN=local
ROOT=/tmp/seeded_par
rm -rf "$ROOT"; git -C /repo worktree prune; mkdir -p "$ROOT"
ls -d /verif/seeded/*/ | grep "$FILTER" > "$ROOT/list"
worker() {
  w=$1
  RW="$ROOT/repo$w"; HW="$ROOT/harness$w"; VD="$ROOT/verif$w"
  git -C /repo worktree add -q --detach "$RW" HEAD || return
  mkdir -p "$VD/evidence" "$VD/harness/bin"
  cp /verif/known_findings.json "$VD/"
  rsync -a --exclude bin /verif/harness/ "$HW/"
  sed -i "s#=> /repo#=> $RW#" "$HW/go.mod"
  cp "$RW/go.sum" "$HW/go.sum"
  i=0
  while read -r d; do
    i=$((i+1)); [ $(( i % W )) -eq "$w" ] || continue
    id=$(basename "$d"); p=${id%%-*}
    # (a change that breaks its property through behaviour another property's
    # check watches names that check in seeded/<id>/check)
    [ -f "$d/check" ] && p=$(cat "$d/check")
    cd "$RW" || return
    if ! git apply --3way "$d/patch.diff" 2>/dev/null && ! git apply "$d/patch.diff" 2>/dev/null; then
      echo "$id :: APPLY-FAILED"; git reset -q --hard HEAD; continue
    fi
    RACE=""; [ "$p" = "C17" ] && RACE="-race"
    out="BUILD-FAILED"
    if (cd "$HW" && go build $RACE -tags verif -o "$VD/harness/bin/vcheck" ./cmd/vcheck 2> "$VD/build.log" && go build $RACE -tags verif -o "$VD/harness/bin/vfirst" ./cmd/vfirst 2>> "$VD/build.log"); then
      out=$(cd "$VD" && VERIF_DIR="$VD" VCHECK_BIN="$VD/harness/bin/vcheck" VFIRST_BIN="$VD/harness/bin/vfirst" timeout 1800 "$VD/harness/bin/vcheck" "$p" quick 2>&1)
      rc=$?
    else rc=9; fi
    cd "$RW" && git reset -q --hard HEAD && git clean -fdq
    nv=$(echo "$out" | grep -c '^VIOLATION')
    if [ "$rc" -ne 0 ] && { [ "$nv" -gt 0 ] || [ "$rc" -gt 1 ]; }; then
      echo "$id :: CAUGHT by=$p rc=$rc violations_printed=$nv :: $(echo "$out" | grep '^VIOLATION' | head -1 | cut -c1-200 | sed "s#$VD#/verif#g")"
    else
      echo "$id :: MISSED rc=$rc :: $(echo "$out" | tail -2 | cut -c1-160 | tr '\n' ' ')"
    fi
  done < "$ROOT/list"
  cd /; git -C /repo worktree remove --force "$RW"
}
for w in $(seq 0 $((W-1))); do worker "$w" > "$ROOT/out$w" 2>&1 & done
wait
cat "$ROOT"/out* | sort > "$ROOT/all"
cat "$ROOT/all"
n=$(grep -c . "$ROOT/all"); miss=$(grep -vc ' :: CAUGHT' "$ROOT/all")
echo "SEEDED-SUMMARY total=$n missed=$miss tier=quick workers=$W head=$(git -C /repo rev-parse --short HEAD)"
git -C /repo worktree prune
cp "$ROOT/all" /tmp/seeded_par_last.log
rm -rf "$ROOT"
[ "$miss" -eq 0 ]
