package mon

import "math/rand/v2"

// splitmix64 step, used to derive independent streams.
func mix(x uint64) uint64 {
	x += 0x9e3779b97f4a7c15
	x = (x ^ (x >> 30)) * 0xbf58476d1ce4e5b9
	x = (x ^ (x >> 27)) * 0x94d049bb133111eb
	return x ^ (x >> 31)
}

// Rng is a small convenience wrapper over a PCG stream.
type Rng struct{ *rand.Rand }

// NewRng derives the stream for (seed, label, index): the case list of every
// check is a pure function of VERIF_SEED and the tier, never of wall-clock.
func NewRng(seed int64, label string, idx int) *Rng {
	a := mix(uint64(seed) ^ Hash64(label))
	b := mix(a ^ uint64(idx)*0x2545f4914f6cdd1d)
	return &Rng{rand.New(rand.NewPCG(a, b))}
}

// Intn returns a value in [0,n).
func (r *Rng) Intn(n int) int { return r.IntN(n) }

// Bool returns true with probability 1/2.
func (r *Rng) Bool() bool { return r.IntN(2) == 0 }

// P returns true with probability p.
func (r *Rng) P(p float64) bool { return r.Float64() < p }

// Pick returns one of the strings.
func (r *Rng) Pick(a ...string) string { return a[r.IntN(len(a))] }

// Range returns a value in [lo,hi].
func (r *Rng) Range(lo, hi int) int { return lo + r.IntN(hi-lo+1) }
