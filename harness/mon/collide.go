package mon

import (
	"hash/adler32"
	"hash/crc32"
)

// Checksums a library might key a cache by. A cache that trusts a 32-bit
// checksum without comparing the text confuses two inputs once in 2^32 pairs;
// a workload meets such a pair only if it is built on purpose. Collide and
// CollideAB build them by birthday search (about 2^17 candidates).

// Sum32 computes the named checksum of s: "fnv1a", "fnv1", "crc32", "adler32".
func Sum32(kind, s string) uint32 {
	switch kind {
	case "fnv1a":
		h := uint32(2166136261)
		for i := 0; i < len(s); i++ {
			h = (h ^ uint32(s[i])) * 16777619
		}
		return h
	case "fnv1":
		h := uint32(2166136261)
		for i := 0; i < len(s); i++ {
			h = (h * 16777619) ^ uint32(s[i])
		}
		return h
	case "crc32":
		return crc32.ChecksumIEEE([]byte(s))
	case "adler32":
		return adler32.Checksum([]byte(s))
	}
	panic("mon.Sum32: unknown kind " + kind)
}

// SumKinds lists the checksum kinds Collide knows.
var SumKinds = []string{"fnv1a", "fnv1", "crc32"}

// Collide returns two different texts made by gen (all of one length) with
// the same checksum, or ok=false after limit candidates.
func Collide(kind string, gen func(i int) string, limit int) (a, b string, ok bool) {
	seen := make(map[uint32]string, 1<<17)
	for i := 0; i < limit; i++ {
		s := gen(i)
		h := Sum32(kind, s)
		if t, dup := seen[h]; dup && t != s && len(t) == len(s) {
			return t, s, true
		}
		seen[h] = s
	}
	return "", "", false
}

// CollideAB returns one text from genA and one from genB (of equal length)
// with the same checksum, or ok=false after limit candidates of each.
func CollideAB(kind string, genA, genB func(i int) string, limit int) (a, b string, ok bool) {
	seenA := make(map[uint32]string, 1<<17)
	seenB := make(map[uint32]string, 1<<17)
	for i := 0; i < limit; i++ {
		sa, sb := genA(i), genB(i)
		ha, hb := Sum32(kind, sa), Sum32(kind, sb)
		seenA[ha], seenB[hb] = sa, sb
		if t, dup := seenB[ha]; dup && len(t) == len(sa) {
			return sa, t, true
		}
		if t, dup := seenA[hb]; dup && len(t) == len(sb) {
			return t, sb, true
		}
	}
	return "", "", false
}

// Word returns a deterministic word of n characters over alphabet, different
// for every i.
func Word(seed uint64, i int, n int, alphabet string) string {
	x := Hash64(string([]byte{byte(seed), byte(seed >> 8), byte(i), byte(i >> 8), byte(i >> 16), byte(i >> 24)}))
	b := make([]byte, n)
	for k := range b {
		if k%10 == 9 {
			x = Hash64(string(b[:k]) + string([]byte{byte(i), byte(i >> 8), byte(i >> 16)}))
		}
		b[k] = alphabet[x%uint64(len(alphabet))]
		x /= uint64(len(alphabet))
	}
	return string(b)
}
