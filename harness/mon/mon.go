// Package mon holds the run-time bookkeeping shared by all checks: counters,
// distinct-case accounting, three-valued verdicts, known-finding
// classification against the committed known_findings.json, replay files and
// the evidence writer.
package mon

import (
	"crypto/sha1"
	"encoding/hex"
	"encoding/json"
	"fmt"
	"hash/fnv"
	"os"
	"path/filepath"
	"sort"
	"strconv"
	"sync"
	"sync/atomic"
	"time"
)

// VerifDir is the root of the verification tree (set by main from VERIF_DIR).
var VerifDir = "/verif"

// Finding is one entry of known_findings.json.
type Finding struct {
	Property string `json:"property"`
	Key      string `json:"key"`
	Status   string `json:"status"` // "open" or "fixed"
	Commit   string `json:"commit,omitempty"`
	What     string `json:"what"`
	Witness  string `json:"witness,omitempty"`
}

type findingsFile struct {
	Findings []Finding `json:"findings"`
}

// LoadFindings reads the committed known-findings file. It is never written
// at run time.
func LoadFindings() (map[string]Finding, error) {
	b, err := os.ReadFile(filepath.Join(VerifDir, "known_findings.json"))
	if err != nil {
		return nil, err
	}
	var f findingsFile
	if err := json.Unmarshal(b, &f); err != nil {
		return nil, err
	}
	m := make(map[string]Finding)
	for _, e := range f.Findings {
		m[e.Property+"|"+e.Key] = e
	}
	return m, nil
}

type knownAgg struct {
	count   int64
	example string
}

// Run collects what one check execution observed.
type Run struct {
	Prop  string
	Tier  string
	Seed  int64
	Level string

	start time.Time
	evals int64

	mu           sync.Mutex
	counters     map[string]int64
	samples      []interface{}
	sampleCap    int
	nviol        int64
	violPrinted  int
	known        map[string]*knownAgg
	inconclusive []string
	findings     map[string]Finding
	extra        map[string]interface{}

	shards [64]struct {
		mu sync.Mutex
		m  map[uint64]struct{}
	}
}

// NewRun starts the bookkeeping for one property / tier / seed.
func NewRun(prop, tier string, seed int64) *Run {
	r := &Run{Prop: prop, Tier: tier, Seed: seed, Level: "exploration", start: time.Now(),
		counters: map[string]int64{}, known: map[string]*knownAgg{}, sampleCap: 12, extra: map[string]interface{}{}}
	for i := range r.shards {
		r.shards[i].m = make(map[uint64]struct{})
	}
	f, err := LoadFindings()
	if err != nil {
		fmt.Fprintf(os.Stderr, "BROKEN: cannot load known_findings.json: %v\n", err)
		os.Exit(3)
	}
	r.findings = f
	return r
}

// ClearReplays removes replay files of earlier runs of this property, so the
// directory only ever describes the latest run.
func (r *Run) ClearReplays() {
	_ = os.RemoveAll(filepath.Join(VerifDir, "replay", r.Prop))
}

// Eval counts executed cases.
func (r *Run) Eval(n int) { atomic.AddInt64(&r.evals, int64(n)) }

// Evals returns the number of executed cases so far.
func (r *Run) Evals() int64 { return atomic.LoadInt64(&r.evals) }

// Hash64 hashes a string (FNV-1a).
func Hash64(s string) uint64 {
	h := fnv.New64a()
	h.Write([]byte(s))
	return h.Sum64()
}

// Distinct records one non-trivial case by its hash; duplicates are counted once.
func (r *Run) Distinct(h uint64) {
	sh := &r.shards[h%uint64(len(r.shards))]
	sh.mu.Lock()
	sh.m[h] = struct{}{}
	sh.mu.Unlock()
}

// DistinctStr is Distinct(Hash64(s)).
func (r *Run) DistinctStr(s string) { r.Distinct(Hash64(s)) }

// DistinctCount returns how many distinct non-trivial cases were recorded.
func (r *Run) DistinctCount() int {
	n := 0
	for i := range r.shards {
		r.shards[i].mu.Lock()
		n += len(r.shards[i].m)
		r.shards[i].mu.Unlock()
	}
	return n
}

// Count adds to a named feature counter.
func (r *Run) Count(key string, n int64) {
	r.mu.Lock()
	r.counters[key] += n
	r.mu.Unlock()
}

// CountMax keeps the maximum seen under a named counter.
func (r *Run) CountMax(key string, v int64) {
	r.mu.Lock()
	if v > r.counters[key] {
		r.counters[key] = v
	}
	r.mu.Unlock()
}

// Counter reads a counter.
func (r *Run) Counter(key string) int64 {
	r.mu.Lock()
	defer r.mu.Unlock()
	return r.counters[key]
}

// MergeCounts adds a whole local counter map (workers batch their counts).
func (r *Run) MergeCounts(m map[string]int64) {
	r.mu.Lock()
	for k, v := range m {
		r.counters[k] += v
	}
	r.mu.Unlock()
}

// Sample keeps a few of the cases that were run, for the evidence file.
func (r *Run) Sample(v interface{}) {
	r.mu.Lock()
	if len(r.samples) < r.sampleCap {
		r.samples = append(r.samples, v)
	}
	r.mu.Unlock()
}

// SetExtra stores an extra key in coverage.
func (r *Run) SetExtra(k string, v interface{}) {
	r.mu.Lock()
	r.extra[k] = v
	r.mu.Unlock()
}

// Inconclusive records that part of the run could not reach a verdict.
func (r *Run) Inconclusive(what string) {
	r.mu.Lock()
	if len(r.inconclusive) < 50 {
		r.inconclusive = append(r.inconclusive, what)
	}
	r.mu.Unlock()
	fmt.Printf("INCONCLUSIVE property=%s %s\n", r.Prop, what)
}

// Require records an inconclusive verdict when a coverage floor is not met.
func (r *Run) Require(ok bool, what string) {
	if !ok {
		r.Inconclusive("coverage floor not met: " + what)
	}
}

// Known classifies a discrepancy whose shape the caller recognised as the
// known deviation `key`. It returns true (and aggregates it) only when the
// committed known-findings file lists that key as open for this property;
// otherwise the caller must report an ordinary violation.
func (r *Run) Known(key, example string) bool {
	f, ok := r.findings[r.Prop+"|"+key]
	if !ok || f.Status != "open" {
		return false
	}
	r.mu.Lock()
	a := r.known[key]
	if a == nil {
		a = &knownAgg{example: example}
		r.known[key] = a
	}
	a.count++
	r.mu.Unlock()
	return true
}

// Violation records a violation: writes a replay file and prints the
// VIOLATION line (the first 25 are printed, all are counted).
func (r *Run) Violation(kind string, detail map[string]interface{}) {
	n := atomic.AddInt64(&r.nviol, 1)
	if n > 200 {
		return
	}
	if detail == nil {
		detail = map[string]interface{}{}
	}
	detail["property"] = r.Prop
	detail["kind"] = kind
	detail["seed"] = r.Seed
	detail["tier"] = r.Tier
	b, _ := json.MarshalIndent(detail, "", " ")
	sum := sha1.Sum(b)
	dir := filepath.Join(VerifDir, "replay", r.Prop)
	_ = os.MkdirAll(dir, 0o755)
	path := filepath.Join(dir, hex.EncodeToString(sum[:6])+".json")
	_ = os.WriteFile(path, b, 0o644)
	r.mu.Lock()
	pr := r.violPrinted < 25
	if pr {
		r.violPrinted++
	}
	r.mu.Unlock()
	if pr {
		short := kind
		if in, ok := detail["input"].(string); ok {
			if len(in) > 160 {
				in = in[:160] + "…"
			}
			short += " input=" + strconv.Quote(in)
		}
		if w, ok := detail["why"].(string); ok {
			if len(w) > 300 {
				w = w[:300] + "…"
			}
			short += " why=" + strconv.Quote(w)
		}
		fmt.Printf("VIOLATION property=%s replay=%s %s\n", r.Prop, path, short)
	}
}

// Violations returns the number of violations recorded.
func (r *Run) Violations() int64 { return atomic.LoadInt64(&r.nviol) }

// Finish writes the evidence file, prints KNOWN-FINDING lines and returns the
// exit code: 0 held, 1 violated or inconclusive.
func (r *Run) Finish(rule string, exhaustive bool, assumptions []string) int {
	wall := time.Since(r.start).Seconds()
	cov := map[string]interface{}{
		"evaluations":         r.Evals(),
		"distinct_nontrivial": r.DistinctCount(),
		"rule":                rule,
		"samples":             r.samples,
		"exhaustive":          exhaustive,
	}
	r.mu.Lock()
	keys := make([]string, 0, len(r.counters))
	for k := range r.counters {
		keys = append(keys, k)
	}
	sort.Strings(keys)
	obs := map[string]int64{}
	for _, k := range keys {
		obs[k] = r.counters[k]
	}
	cov["observed"] = obs
	for k, v := range r.extra {
		cov[k] = v
	}
	kf := map[string]interface{}{}
	kkeys := make([]string, 0, len(r.known))
	for k := range r.known {
		kkeys = append(kkeys, k)
	}
	sort.Strings(kkeys)
	for _, k := range kkeys {
		a := r.known[k]
		kf[k] = map[string]interface{}{"count": a.count, "example": a.example}
		f := r.findings[r.Prop+"|"+k]
		ex := a.example
		if len(ex) > 200 {
			ex = ex[:200] + "…"
		}
		fmt.Printf("KNOWN-FINDING: property=%s %s: %s (observed %d times this run, e.g. %s)\n", r.Prop, k, f.What, a.count, strconv.Quote(ex))
	}
	cov["known_findings_observed"] = kf
	if len(r.inconclusive) > 0 {
		cov["inconclusive"] = r.inconclusive
	}
	inconc := len(r.inconclusive)
	r.mu.Unlock()
	if len(r.samples) == 0 {
		cov["samples"] = []interface{}{"(no case sampled)"}
	}
	ev := map[string]interface{}{
		"property_id": r.Prop,
		"tier":        r.Tier,
		"seed":        r.Seed,
		"level":       r.Level,
		"coverage":    cov,
		"assumptions": assumptions,
		"wall_s":      wall,
		"violations":  r.Violations(),
	}
	b, _ := json.MarshalIndent(ev, "", " ")
	_ = os.MkdirAll(filepath.Join(VerifDir, "evidence"), 0o755)
	if err := os.WriteFile(filepath.Join(VerifDir, "evidence", r.Prop+".json"), b, 0o644); err != nil {
		fmt.Fprintf(os.Stderr, "BROKEN: cannot write evidence: %v\n", err)
		return 3
	}
	verdict := "HELD"
	code := 0
	if r.Violations() > 0 {
		verdict, code = "VIOLATED", 1
	} else if inconc > 0 || r.Evals() == 0 || r.DistinctCount() < 2 {
		verdict, code = "INCONCLUSIVE", 1
	}
	fmt.Printf("RESULT property=%s tier=%s seed=%d verdict=%s evaluations=%d distinct_nontrivial=%d violations=%d known_findings=%d wall_s=%.1f\n",
		r.Prop, r.Tier, r.Seed, verdict, r.Evals(), r.DistinctCount(), r.Violations(), len(kkeys), wall)
	return code
}

// Parallel runs fn(i) for i in [0,n) on `workers` goroutines. A panic inside
// fn is a harness bug (checks recover around calls into influxql themselves)
// and is re-raised.
func Parallel(n, workers int, fn func(i int)) {
	if workers < 1 {
		workers = 1
	}
	var next int64 = -1
	var wg sync.WaitGroup
	for w := 0; w < workers; w++ {
		wg.Add(1)
		go func() {
			defer wg.Done()
			for {
				i := int(atomic.AddInt64(&next, 1))
				if i >= n {
					return
				}
				fn(i)
			}
		}()
	}
	wg.Wait()
}

// Try calls fn and converts a panic into (panicked=true, value, stack).
func Try(fn func()) (panicked bool, val interface{}, stack string) {
	defer func() {
		if v := recover(); v != nil {
			panicked, val = true, v
			stack = string(debugStack())
		}
	}()
	fn()
	return
}
