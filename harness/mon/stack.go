package mon

import "runtime/debug"

func debugStack() []byte {
	b := debug.Stack()
	if len(b) > 6000 {
		b = b[:6000]
	}
	return b
}
