// vcheck runs one property monitor against the influxql tree this binary was
// built from (module replace => /repo, build tag verif).
package main

import (
	"fmt"
	"os"
	"runtime"
	"strconv"

	"verifharness/checks"
	"verifharness/mon"
)

func main() {
	if len(os.Args) < 3 {
		fmt.Fprintln(os.Stderr, "usage: vcheck <ID> quick|thorough | vcheck <ID> --replay <file> | vcheck --worker ...")
		os.Exit(3)
	}
	// A program may change the number of Ps after the library's packages were
	// initialised (a flag, a container quota): everything below runs with more
	// Ps than there were at start-up.
	runtime.GOMAXPROCS(runtime.GOMAXPROCS(0) + 7)
	if d := os.Getenv("VERIF_DIR"); d != "" {
		mon.VerifDir = d
	}
	if os.Args[1] == "--worker" {
		os.Exit(checks.WorkerMain(os.Args[2:]))
	}
	seed := int64(1)
	if s := os.Getenv("VERIF_SEED"); s != "" {
		if v, err := strconv.ParseInt(s, 10, 64); err == nil {
			seed = v
		}
	}
	id := os.Args[1]
	if os.Args[2] == "--replay" {
		if len(os.Args) < 4 {
			fmt.Fprintln(os.Stderr, "usage: vcheck <ID> --replay <file>")
			os.Exit(3)
		}
		os.Exit(checks.Run(id, "quick", seed, os.Args[3]))
	}
	tier := os.Args[2]
	if tier != "quick" && tier != "thorough" {
		fmt.Fprintln(os.Stderr, "tier must be quick or thorough")
		os.Exit(3)
	}
	os.Exit(checks.Run(id, tier, seed, ""))
}
