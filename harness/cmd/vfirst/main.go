// vfirst: a process whose very first calls into the library are made by many
// goroutines at the same moment (C17: "any number of goroutines may parse,
// print, quote, format and sanitize at the same time" has no "after a first
// call made alone"). It imports nothing of the harness, so that no package
// initialiser touches the library before main. Built with -race; every result
// is compared with what the same call returns afterwards, made alone.
//
//	vfirst <k>     k rotates which entry point each goroutine calls first
//	vfirst env-local-clone   nothing in this process has used local time yet:
//	                         a statement with TZ('Local') and its clone
//	vfirst env-local-swap    the program assigns time.Local between two parses
//	                         of a statement with tz('Local')
package main

import (
	"fmt"
	"os"
	"strconv"
	"strings"
	"sync"
	"time"

	"github.com/influxdata/influxql"
)

type call struct {
	name string
	run  func() string
}

var calls = []call{
	{"ParseQuery.String", func() string {
		q, err := influxql.ParseQuery("select Mean(v) from cpu where host = 'a' and time > now() - 1h group by time(5m), host fill(none) order by time desc limit 3")
		if err != nil {
			return "error: " + err.Error()
		}
		return q.String()
	}},
	{"ParseStatement(show)", func() string {
		s, err := influxql.ParseStatement("show tag values on db with key in (a, \"select\") where x =~ /re/ limit 1")
		if err != nil {
			return "error: " + err.Error()
		}
		return s.String()
	}},
	{"ParseExpr", func() string {
		e, err := influxql.ParseExpr("a or b and not_a_keyword > 1.5 + 2 * -c")
		if err != nil {
			return "error: " + err.Error()
		}
		return e.String()
	}},
	{"ParseQuery(error)", func() string {
		_, err := influxql.ParseQuery("select from")
		return fmt.Sprint(err)
	}},
	{"Lookup", func() string {
		return fmt.Sprint(influxql.Lookup("select"), influxql.Lookup("MEASUREMENTS"), influxql.Lookup("and"), influxql.Lookup("true"), influxql.Lookup("cpu"))
	}},
	{"IdentNeedsQuotes", func() string {
		return fmt.Sprint(influxql.IdentNeedsQuotes("from"), influxql.IdentNeedsQuotes("cpu"), influxql.IdentNeedsQuotes("Where"), influxql.IdentNeedsQuotes("a b"))
	}},
	{"QuoteIdent", func() string {
		return influxql.QuoteIdent("db", "select", "cpu load")
	}},
	{"QuoteString", func() string { return influxql.QuoteString("it's") }},
	{"Sanitize", func() string {
		return influxql.Sanitize("create user u with password 'pw'; set password for u = 'pw2'")
	}},
	{"ParseDuration+Format", func() string {
		d, err := influxql.ParseDuration("1h30m")
		return fmt.Sprint(influxql.FormatDuration(d), err, influxql.FormatDuration(36*time.Hour))
	}},
	{"Scanner", func() string {
		s := influxql.NewScanner(strings.NewReader("DROP series From x"))
		var out []string
		for {
			tok, _, lit := s.Scan()
			if tok == influxql.EOF {
				break
			}
			if tok != influxql.WS {
				out = append(out, tok.String()+":"+lit)
			}
		}
		return strings.Join(out, " ")
	}},
	{"Token.String", func() string {
		return fmt.Sprint(influxql.SELECT, influxql.MUL, influxql.IDENT, influxql.DURATIONVAL)
	}},
}

// envLocal: the two modes in which the process-global time.Local is part of
// the input. Each runs in a process of its own.
func envLocal(mode string) int {
	switch mode {
	case "env-local-clone":
		st, err := influxql.ParseStatement("SELECT v FROM m WHERE time > '2020-01-01 00:00:00' TZ('Local')")
		if err != nil {
			fmt.Println("ENVLOCAL skipped:", err)
			return 0
		}
		sel := st.(*influxql.SelectStatement)
		cl := sel.Clone()
		red := sel.Reduce(nil)
		a, b, c := sel.String(), cl.String(), red.String()
		if a != b || a != c {
			fmt.Printf("MISMATCH original=%q clone=%q reduced=%q\n", a, b, c)
			return 1
		}
		if sel.Location != nil && (cl.Location == nil || cl.Location.String() != sel.Location.String() || red.Location == nil || red.Location.String() != sel.Location.String()) {
			fmt.Printf("MISMATCH zone of the original %v, of the clone %v, of the reduced statement %v\n", sel.Location, cl.Location, red.Location)
			return 1
		}
		fmt.Println("ENVLOCAL ok")
		return 0
	case "env-local-swap":
		const q = "SELECT v FROM m tz('Local')"
		st1, err := influxql.ParseStatement(q)
		if err != nil {
			fmt.Println("ENVLOCAL skipped:", err)
			return 0
		}
		for i, z := range []*time.Location{time.FixedZone("SWAP1", -5*3600), time.UTC, time.FixedZone("SWAP2", 19800)} {
			time.Local = z
			st2, err := influxql.ParseStatement(q)
			if err != nil {
				fmt.Printf("MISMATCH after time.Local was assigned (%d) the statement is rejected: %v\n", i, err)
				return 1
			}
			loc := st2.(*influxql.SelectStatement).Location
			t := time.Date(2020, 6, 1, 12, 0, 0, 0, time.UTC)
			if loc == nil {
				fmt.Printf("MISMATCH after time.Local was assigned (%d) the statement has no zone\n", i)
				return 1
			}
			_, got := t.In(loc).Zone()
			_, want := t.In(time.Local).Zone()
			if got != want {
				fmt.Printf("MISMATCH tz('Local') parsed after time.Local was set to %v has offset %d s, local time has %d s (first parse: %v)\n", z, got, want, st1.(*influxql.SelectStatement).Location)
				return 1
			}
		}
		fmt.Println("ENVLOCAL ok")
		return 0
	case "env-first-helper":
		// the first calls into the library are the quoting helpers, on words
		// that are keywords: their answers are the same before and after
		// anything has been scanned or parsed
		words := []string{"key", "select", "FROM", "Limit", "true", "and", "measurements", "cpu", "my_field"}
		var before []string
		for _, w := range words {
			before = append(before, fmt.Sprint(influxql.IdentNeedsQuotes(w), influxql.QuoteIdent(w), influxql.QuoteIdent("db", "", w)))
		}
		built := (&influxql.SelectStatement{Fields: influxql.Fields{{Expr: &influxql.VarRef{Val: "limit"}}}, Sources: influxql.Sources{&influxql.Measurement{Name: "user"}}, IsRawQuery: true}).String()
		if _, err := influxql.ParseStatement(built); err != nil {
			fmt.Printf("MISMATCH a hand-built statement printed before anything was parsed, %q, does not parse: %v\n", built, err)
			return 1
		}
		_, _ = influxql.ParseQuery("SELECT a FROM b WHERE c = 1")
		for i, w := range words {
			after := fmt.Sprint(influxql.IdentNeedsQuotes(w), influxql.QuoteIdent(w), influxql.QuoteIdent("db", "", w))
			if after != before[i] {
				fmt.Printf("MISMATCH %q: as the first call in the process the helpers answer %s, after a parse %s\n", w, before[i], after)
				return 1
			}
		}
		fmt.Println("ENVLOCAL ok")
		return 0
	case "env-first-tz":
		// the first time zone the process ever asks for does not exist; the
		// ones asked for afterwards do
		_, err0 := influxql.ParseStatement("SELECT v FROM m TZ('Europe/Berlim')")
		if _, err := time.LoadLocation("Europe/Berlin"); err != nil {
			fmt.Println("ENVLOCAL skipped: no zone database")
			return 0
		}
		for _, z := range []string{"Europe/Berlin", "America/Los_Angeles", "Asia/Kolkata", "UTC"} {
			if _, err := influxql.ParseStatement("SELECT v FROM m TZ('" + z + "')"); err != nil {
				fmt.Printf("MISMATCH after a statement with an unknown zone was refused (%v), TZ('%s') is refused too: %v\n", err0, z, err)
				return 1
			}
		}
		fmt.Println("ENVLOCAL ok")
		return 0
	}
	return 3
}

func main() {
	if len(os.Args) > 1 && strings.HasPrefix(os.Args[1], "env-") {
		os.Exit(envLocal(os.Args[1]))
	}
	k := 0
	if len(os.Args) > 1 {
		k, _ = strconv.Atoi(os.Args[1])
	}
	const G = 24
	start := make(chan struct{})
	var wg sync.WaitGroup
	type obs struct {
		call, g, round int
		got            string
	}
	results := make([][]obs, G)
	safe := func(f func() string) (s string) {
		defer func() {
			if r := recover(); r != nil {
				s = fmt.Sprint("panic: ", r)
			}
		}()
		return f()
	}
	for g := 0; g < G; g++ {
		wg.Add(1)
		go func(g int) {
			defer wg.Done()
			<-start
			for j := 0; j < len(calls); j++ {
				ci := (k + g + j) % len(calls)
				results[g] = append(results[g], obs{ci, g, j, safe(calls[ci].run)})
			}
		}(g)
	}
	close(start)
	wg.Wait()
	// the same calls made alone, now that nothing else runs
	want := make([]string, len(calls))
	for i, c := range calls {
		want[i] = safe(c.run)
	}
	n, bad := 0, 0
	for _, rs := range results {
		for _, o := range rs {
			n++
			if o.got != want[o.call] {
				bad++
				if bad <= 5 {
					fmt.Printf("MISMATCH call=%s goroutine=%d round=%d got=%q alone=%q\n", calls[o.call].name, o.g, o.round, o.got, want[o.call])
				}
			}
		}
	}
	fmt.Printf("FIRSTUSE calls=%d mismatches=%d\n", n, bad)
	if bad > 0 {
		os.Exit(1)
	}
}
