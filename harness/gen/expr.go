package gen

import (
	"math"
	"regexp"
	"strconv"
	"strings"
	"time"

	"github.com/influxdata/influxql"
	"verifharness/mon"
)

// Opts tunes the generator.
type Opts struct {
	Hostile  bool // names and strings that need quoting / escaping
	MaxDepth int  // expression depth
	NoNeg    bool // no unary minus / plus on references, calls, groups
	NoSubq   bool
	Simple   bool // minimal payloads (exhaustive clause-subset mode)
	// Odd makes the generator produce statements a later validation stage
	// would reject but the parser accepts: calls with any argument count,
	// time() dimensions with 0-3 arguments of any kind, zero and negative
	// intervals, duration arithmetic with fractional and zero operands.
	Odd bool
	// SubqDepth is the maximum subquery nesting of SELECT sources (default 2).
	SubqDepth int
	// SubqProb is the probability that a source is a subquery (default 0.2).
	SubqProb float64
	// SubqInto is the probability that a subquery carries an INTO clause of
	// its own (the parser accepts one); default 0.05 outside Simple mode.
	SubqInto float64
	// FewDBs draws database names from a pool of three, so that the same
	// database is read, written and named at several depths of one statement.
	FewDBs bool
}

// G generates one statement at a time.
type G struct {
	B    *Builder
	Rg   *mon.Rng
	Opt  Opts
	n    int
	Feat map[string]int

	durs    []time.Duration
	negAtom map[*influxql.BinaryExpr]bool
	segs    map[*influxql.VarRef][]string
	// quotedCall marks calls whose name must be written quoted
	quotedCall map[*influxql.Call]bool
	// Names records every (slot, name) pair put into the statement.
	Names []string
	// Passwords records password literals (C15).
	Passwords []string
}

// New makes a generator over a fresh builder.
func New(rg *mon.Rng, opt Opts) *G {
	if opt.MaxDepth == 0 {
		opt.MaxDepth = 3
	}
	b := &Builder{Rg: rg, KwStyle: rg.Intn(4)}
	if opt.Simple {
		b.Plain = true
	}
	return &G{B: b, Rg: rg, Opt: opt, Feat: map[string]int{}, durs: durPool, negAtom: map[*influxql.BinaryExpr]bool{}, segs: map[*influxql.VarRef][]string{}, quotedCall: map[*influxql.Call]bool{}}
}

func (g *G) feat(k string) { g.Feat[k]++ }

var hostileBases = []string{"", "my db", "a.b", `q"t`, `b\s`, "nl\nx", "1st", "é日", "select", "Time", "x'y", "FROM", "a-b", "$p", "tab\tx", "/re/", "with space ", "ünï", "true", "Or", "distinct", "DISTINCT", "now", "time", "all", "key", "temp_\u212a", "\u0130d", "cpu\uff13", "host_\u0663", "v\u0967x", "_series", "_fieldKeys", "_tagKeys", "_tags", "_measurements", "_name", "_tagKey", "_internal", strings.Repeat("n", 63), strings.Repeat("L", 64), strings.Repeat("w", 65), strings.Repeat("ab", 100)}

// Name returns a fresh name for a slot; every name in one statement differs.
func (g *G) Name(slot string) string {
	g.n++
	var s string
	if g.Opt.FewDBs && slot == "db" {
		s = g.Rg.Pick("db0", "db1", "Db2")
		g.Names = append(g.Names, slot+"="+s)
		return s
	}
	if g.Opt.Hostile && g.Rg.P(0.6) {
		s = hostileBases[g.Rg.Intn(len(hostileBases))]
		if s == "" && slot != "m" && slot != "t" && slot != "db" && slot != "rp" && slot != "fn" {
			s = "e"
		}
		if g.Rg.P(0.7) {
			s += strconv.Itoa(g.n)
		}
		g.feat("name.hostile")
	} else {
		s = slot + strconv.Itoa(g.n)
		if g.Rg.P(0.15) {
			s = "_" + s
		}
		if g.Rg.P(0.15) {
			s = strings.ToUpper(s[:1]) + s[1:]
		}
	}
	g.Names = append(g.Names, slot+"="+s)
	return s
}

var strPool = []string{"", "a", "server01", "us-west", "it's", `say "hi"`, `back\slash`, "line\nbreak", "semi;colon", "-- not a comment", "/* nor this */", "$param", "é日本", "2000-01-01T00:00:00Z", "2000-01-01", "2000-01-01 12:00:00", " spaced ", "tab\there"}

func (g *G) strVal() string {
	if g.Opt.Simple {
		return "s" + strconv.Itoa(g.next())
	}
	s := strPool[g.Rg.Intn(len(strPool))]
	if g.Rg.P(0.5) {
		s += strconv.Itoa(g.next())
	}
	return s
}

func (g *G) next() int { g.n++; return g.n }

var regexPool = []string{"^[^\\x00-\\x{10FFFF}]$", "^a\\P{Any}$", "^[\\x{7e}-\\x{81}]$", "^srv[\\x{7fe}-\\x{801}]$", "^(a[a-z]|b[a-z]|c[a-z]|d[a-z])$", "cpu.*", "^server[0-9]+$", "a/b", "^(us|eu)-west$", `\d+\.\d+`, "^$", "x", "(?i)abc", "^a/b/c$", "[a-z]{2,3}", `\/already`, "^é.*", "", "a|b", `C:\\/tmp`, `a\\\\/b/`}

func (g *G) regexLit() *influxql.RegexLiteral {
	src := regexPool[g.Rg.Intn(len(regexPool))]
	if g.Opt.Simple {
		src = "re" + strconv.Itoa(g.next())
	}
	g.feat("lit.regex")
	return &influxql.RegexLiteral{Val: regexp.MustCompile(src)}
}

var binOpsArith = []influxql.Token{influxql.ADD, influxql.SUB, influxql.MUL, influxql.DIV, influxql.MOD, influxql.BITWISE_AND, influxql.BITWISE_OR, influxql.BITWISE_XOR}
var binOpsCmp = []influxql.Token{influxql.EQ, influxql.NEQ, influxql.LT, influxql.LTE, influxql.GT, influxql.GTE, influxql.EQREGEX, influxql.NEQREGEX}

// Prec is the harness's own precedence table (from the property statement).
func Prec(op influxql.Token) int {
	switch op {
	case influxql.OR:
		return 1
	case influxql.AND:
		return 2
	case influxql.EQ, influxql.NEQ, influxql.LT, influxql.LTE, influxql.GT, influxql.GTE, influxql.EQREGEX, influxql.NEQREGEX:
		return 3
	case influxql.ADD, influxql.SUB, influxql.BITWISE_OR, influxql.BITWISE_XOR:
		return 4
	}
	return 5
}

// ECtx is the expression context.
type ECtx int

const (
	CtxField ECtx = iota // no comparison / logical operators at any depth
	CtxCond
)

// Tree builds an expression tree (with explicit ParenExpr nodes wherever the
// shape requires grouping).
func (g *G) Tree(ctx ECtx, depth int) influxql.Expr {
	if depth <= 0 || g.Rg.P(0.35) {
		return g.atom(ctx, depth)
	}
	var op influxql.Token
	if ctx == CtxField {
		op = binOpsArith[g.Rg.Intn(len(binOpsArith))]
	} else {
		switch g.Rg.Intn(10) {
		case 0, 1, 2:
			op = influxql.AND
		case 3, 4:
			op = influxql.OR
		case 5, 6, 7:
			op = binOpsCmp[g.Rg.Intn(len(binOpsCmp))]
		default:
			op = binOpsArith[g.Rg.Intn(len(binOpsArith))]
		}
	}
	g.feat("op." + op.String())
	lhs := g.Tree(ctx, depth-1)
	var rhs influxql.Expr
	if op == influxql.EQREGEX || op == influxql.NEQREGEX {
		rhs = g.regexLit()
	} else {
		rhs = g.Tree(ctx, depth-1)
	}
	if b, ok := lhs.(*influxql.BinaryExpr); ok && !g.negAtom[b] && (Prec(b.Op) < Prec(op) || g.Rg.P(0.1)) {
		lhs = &influxql.ParenExpr{Expr: lhs}
		g.feat("paren.needed-or-redundant")
	}
	if b, ok := rhs.(*influxql.BinaryExpr); ok && !g.negAtom[b] && (Prec(b.Op) <= Prec(op) || g.Rg.P(0.1)) {
		rhs = &influxql.ParenExpr{Expr: rhs}
		g.feat("paren.needed-or-redundant")
	}
	return &influxql.BinaryExpr{Op: op, LHS: lhs, RHS: rhs}
}

var castTypes = []struct {
	spell string
	t     influxql.DataType
	kw    bool
}{{"float", influxql.Float, false}, {"integer", influxql.Integer, false}, {"unsigned", influxql.Unsigned, false}, {"string", influxql.String, false}, {"boolean", influxql.Boolean, false}, {"field", influxql.AnyField, true}, {"tag", influxql.Tag, true}}

// Ref builds a variable reference with 1-3 segments and an optional cast.
func (g *G) Ref() *influxql.VarRef {
	nseg := 1
	if !g.Opt.Simple {
		switch g.Rg.Intn(12) {
		case 0:
			nseg = 2
		case 1:
			nseg = 3
		}
	}
	var segs []string
	for i := 0; i < nseg; i++ {
		if nseg == 3 && i == 1 && g.Rg.P(0.3) {
			segs = append(segs, "")
			g.feat("ref.empty-middle-segment")
			continue
		}
		segs = append(segs, g.Name("f"))
	}
	v := &influxql.VarRef{Val: strings.Join(segs, ".")}
	if !g.Opt.Simple && g.Rg.P(0.2) {
		ct := castTypes[g.Rg.Intn(len(castTypes))]
		v.Type = ct.t
		g.feat("cast." + ct.spell)
	}
	g.segs[v] = segs
	g.feat("ref.segments." + strconv.Itoa(nseg))
	return v
}

var intPool = []int64{0, 1, 2, 7, 10, 42, 100, 1000, 86400, 9223372036854775807, 946684800000000000}
var floatPool = []float64{0, 0.5, 1.5, 3, 2.25, 100, 0.001, 12345.678, 1e21, 1e-7, 99.99, 0.1}
var durPool = []time.Duration{0, 1, 1000, time.Millisecond, 1500 * time.Millisecond, time.Second, 90 * time.Second, time.Minute, 90 * time.Minute, time.Hour, 24 * time.Hour, 7 * 24 * time.Hour, 36 * time.Hour, 123456789, 10 * time.Minute}
var callPool = []string{"mean", "count", "max", "min", "sum", "top", "bottom", "percentile", "derivative", "now", "last", "first", "distinct", "holt_winters", "my_udf", "f"}

func (g *G) litInt() *influxql.IntegerLiteral {
	v := intPool[g.Rg.Intn(len(intPool))]
	if g.Rg.P(0.3) {
		v = int64(g.Rg.Intn(100000))
	}
	if g.Opt.Simple {
		v = int64(g.next())
	}
	if g.Rg.P(0.2) && !g.Opt.Simple {
		v = -v
		if g.Rg.P(0.1) {
			v = math.MinInt64
		}
	}
	g.feat("lit.integer")
	return &influxql.IntegerLiteral{Val: v}
}

func (g *G) atom(ctx ECtx, depth int) influxql.Expr {
	if g.Opt.Odd && g.Rg.P(0.15) {
		// duration / number arithmetic with zero, fractional and huge operands
		d := &influxql.DurationLiteral{Val: g.durs[g.Rg.Intn(len(g.durs))]}
		var rhs influxql.Expr
		switch g.Rg.Intn(5) {
		case 0:
			rhs = &influxql.NumberLiteral{Val: []float64{0.5, 0.25, 0.999, 0, 1e-7, 1e300, 2.5}[g.Rg.Intn(7)]}
		case 1:
			rhs = &influxql.IntegerLiteral{Val: []int64{0, 1, 2, 9223372036854775807}[g.Rg.Intn(4)]}
		case 2:
			rhs = &influxql.DurationLiteral{Val: g.durs[g.Rg.Intn(len(g.durs))]}
		case 3:
			rhs = &influxql.StringLiteral{Val: "2000-01-01T00:00:00Z"}
		default:
			rhs = &influxql.Call{Name: "now"}
		}
		op := []influxql.Token{influxql.DIV, influxql.MUL, influxql.ADD, influxql.SUB, influxql.MOD}[g.Rg.Intn(5)]
		g.feat("odd.duration-arith")
		return &influxql.ParenExpr{Expr: &influxql.BinaryExpr{Op: op, LHS: d, RHS: rhs}}
	}
	if g.Opt.Odd && ctx == CtxCond && g.Rg.P(0.08) {
		// comparison of two time-looking strings, well-formed or not
		ts := []string{"2000-01-01T00:00:00Z", "2000-01-01", "2000-01-01 12:00:00", "2000-13-45T00:00:00Z", "2000-02-31", "2000-01-01T25:61:00Z", "2000-01-01x", "1677-09-21T00:12:43.145224193Z", "2262-04-11T23:47:16.854775807Z", "0000-00-00", "9999-12-31T23:59:59Z"}
		op := []influxql.Token{influxql.EQ, influxql.NEQ, influxql.LT, influxql.LTE, influxql.GT, influxql.GTE, influxql.ADD, influxql.SUB}[g.Rg.Intn(8)]
		g.feat("odd.time-strings")
		return &influxql.ParenExpr{Expr: &influxql.BinaryExpr{Op: op, LHS: &influxql.StringLiteral{Val: ts[g.Rg.Intn(len(ts))]}, RHS: &influxql.StringLiteral{Val: ts[g.Rg.Intn(len(ts))]}}}
	}
	k := g.Rg.Intn(20)
	if g.Opt.Simple {
		k = g.Rg.Intn(4)
	}
	switch {
	case k < 6:
		return g.Ref()
	case k < 8:
		return g.litInt()
	case k == 8:
		v := floatPool[g.Rg.Intn(len(floatPool))]
		if g.Rg.P(0.25) {
			v = -v
		}
		g.feat("lit.number")
		return &influxql.NumberLiteral{Val: v}
	case k == 9:
		g.feat("lit.string")
		return &influxql.StringLiteral{Val: g.strVal()}
	case k == 10:
		g.feat("lit.boolean")
		return &influxql.BooleanLiteral{Val: g.Rg.Bool()}
	case k == 11:
		d := g.durs[g.Rg.Intn(len(g.durs))]
		if g.Rg.P(0.2) {
			d = -d
		}
		g.feat("lit.duration")
		return &influxql.DurationLiteral{Val: d}
	case k == 12:
		g.feat("lit.unsigned")
		return &influxql.UnsignedLiteral{Val: []uint64{9223372036854775808, 18446744073709551615, 9223372036854775809}[g.Rg.Intn(3)]}
	case k < 15:
		return g.Call(ctx, depth)
	case k < 17 && depth > 0:
		g.feat("paren.atom")
		if !g.Opt.Simple && g.Rg.P(0.12) {
			g.feat("paren.doubled")
			return &influxql.ParenExpr{Expr: &influxql.ParenExpr{Expr: g.Tree(ctx, depth-1)}}
		}
		return &influxql.ParenExpr{Expr: g.Tree(ctx, depth-1)}
	case k < 19 && !g.Opt.NoNeg:
		var inner influxql.Expr
		switch g.Rg.Intn(3) {
		case 0:
			inner = g.Ref()
		case 1:
			c := g.Call(ctx, depth)
			if c.Name == "distinct" {
				// `-distinct(x)` is not in the grammar: DISTINCT is a keyword
				// and a sign must be followed by a name, number or group; the
				// quoted spelling `-"distinct"(x)` is
				if g.Rg.Bool() {
					c.Name = "mean"
				} else {
					g.quotedCall[c] = true
					g.feat("neg-atom.quoted-distinct")
				}
			}
			inner = c
		default:
			inner = &influxql.ParenExpr{Expr: g.Tree(ctx, depth-1)}
		}
		sign := int64(-1)
		if g.Rg.P(0.2) {
			sign = 1
		}
		b := &influxql.BinaryExpr{Op: influxql.MUL, LHS: &influxql.IntegerLiteral{Val: sign}, RHS: inner}
		g.negAtom[b] = true
		g.feat("neg-atom")
		return b
	}
	return g.Ref()
}

// Call builds a function call.
func (g *G) Call(ctx ECtx, depth int) *influxql.Call {
	name := callPool[g.Rg.Intn(len(callPool))]
	if g.Opt.Hostile && g.Rg.P(0.1) {
		name = strings.ToLower(g.Name("fn"))
	}
	c := &influxql.Call{Name: name}
	nargs := g.Rg.Intn(4)
	if g.Opt.Odd && g.Rg.P(0.04) {
		nargs = 7 + g.Rg.Intn(8) // surplus arguments
		g.feat("call.args.many")
	}
	if name == "now" && nargs < 7 {
		nargs = 0
	}
	for i := 0; i < nargs; i++ {
		switch k := g.Rg.Intn(12); {
		case k == 0:
			c.Args = append(c.Args, g.regexLit())
			g.feat("arg.regex")
		case k == 1:
			c.Args = append(c.Args, g.Wildcard())
			g.feat("arg.wildcard")
		case k == 2:
			c.Args = append(c.Args, &influxql.Distinct{Val: g.Name("f")})
			g.feat("arg.distinct")
		case (k == 3 || (g.Opt.Odd && k < 6)) && depth > 0:
			c.Args = append(c.Args, g.Call(ctx, depth-1))
			g.feat("arg.call")
		default:
			d := depth - 1
			if d > 1 {
				d = 1
			}
			c.Args = append(c.Args, g.Tree(ctx, d))
		}
	}
	g.feat("call.args." + strconv.Itoa(nargs))
	return c
}

// Wildcard builds *, *::field or *::tag.
func (g *G) Wildcard() *influxql.Wildcard {
	switch g.Rg.Intn(4) {
	case 0:
		return &influxql.Wildcard{Type: influxql.FIELD}
	case 1:
		return &influxql.Wildcard{Type: influxql.TAG}
	}
	return &influxql.Wildcard{}
}

var unitSpells = []struct {
	s string
	m time.Duration
}{{"w", 7 * 24 * time.Hour}, {"d", 24 * time.Hour}, {"h", time.Hour}, {"m", time.Minute}, {"s", time.Second}, {"ms", time.Millisecond}, {"u", time.Microsecond}, {"ns", 1}}

// DurSpell writes a non-negative duration as one or more components.
func (g *G) DurSpell(d time.Duration) string {
	if d == 0 {
		return g.Rg.Pick("0s", "0ns", "0m", "00s", "0w")
	}
	if g.B.Plain {
		for _, u := range unitSpells {
			if d%u.m == 0 {
				return strconv.FormatInt(int64(d/u.m), 10) + u.s
			}
		}
	}
	start := g.Rg.Intn(len(unitSpells))
	var sb strings.Builder
	rest := d
	for i := start; i < len(unitSpells); i++ {
		u := unitSpells[i]
		q := rest / u.m
		if i == len(unitSpells)-1 {
			q = rest
		}
		if q == 0 {
			continue
		}
		if i < len(unitSpells)-1 && g.Rg.P(0.3) && rest%u.m != 0 {
			// leave everything to smaller units sometimes
			continue
		}
		rest -= q * u.m
		sp := u.s
		if sp == "u" && g.Rg.Bool() {
			sp = "µ"
		}
		sb.WriteString(strconv.FormatInt(int64(q), 10) + sp)
		if rest == 0 {
			break
		}
	}
	g.feat("spell.duration")
	return sb.String()
}

// FloatSpell writes a non-negative float as a decimal that parses back exactly.
func (g *G) FloatSpell(v float64) string {
	s := strconv.FormatFloat(v, 'f', -1, 64)
	if !strings.Contains(s, ".") {
		if g.B.Plain {
			return s + ".0"
		}
		return s + g.Rg.Pick(".0", ".", ".00")
	}
	if g.B.Plain {
		return s
	}
	if strings.HasPrefix(s, "0.") && g.Rg.P(0.3) {
		s = s[1:]
	}
	if g.Rg.P(0.2) {
		s += "0"
	}
	return s
}

// Emit writes the tokens denoting e.
func (g *G) Emit(e influxql.Expr) {
	b := g.B
	switch e := e.(type) {
	case *influxql.BinaryExpr:
		if g.negAtom[e] {
			if e.LHS.(*influxql.IntegerLiteral).Val < 0 {
				b.Raw("-", COp, "unary-")
			} else {
				b.Raw("+", COp, "unary+")
			}
			g.Emit(e.RHS)
			return
		}
		g.Emit(e.LHS)
		switch e.Op {
		case influxql.NEQ:
			b.Op(g.Rg.Pick("!=", "<>"))
		default:
			b.Op(e.Op.String())
		}
		g.Emit(e.RHS)
	case *influxql.ParenExpr:
		b.P("(")
		g.Emit(e.Expr)
		b.P(")")
	case *influxql.VarRef:
		segs := g.segs[e]
		if segs == nil {
			segs = []string{e.Val}
		}
		for i, s := range segs {
			if i > 0 {
				b.PNone(".")
			}
			if s == "" {
				continue
			}
			b.Ident(s)
			if i > 0 {
				b.ForceGap(GapNone)
			}
		}
		if e.Type != influxql.Unknown {
			b.PNone("::")
			for _, ct := range castTypes {
				if ct.t == e.Type {
					sp := ct.spell
					if !b.Plain {
						sp = b.kwSpell(strings.ToUpper(sp))
					}
					b.RawGap(sp, CKw, "cast", GapNone)
				}
			}
		}
	case *influxql.IntegerLiteral:
		if e.Val < 0 {
			b.Raw("-", COp, "unary-")
			b.Raw(strconv.FormatUint(uint64(-e.Val), 10), CNum, "integer")
			return
		}
		if !b.Plain && g.Rg.P(0.08) {
			b.Raw("+", COp, "unary+")
		}
		s := strconv.FormatInt(e.Val, 10)
		if !b.Plain && g.Rg.P(0.08) {
			s = "00" + s
			g.feat("spell.leading-zeros")
		}
		b.Raw(s, CNum, "integer")
	case *influxql.UnsignedLiteral:
		if !b.Plain && g.Rg.P(0.15) {
			b.Raw("+", COp, "unary+")
			g.feat("spell.plus-unsigned")
		}
		b.Raw(strconv.FormatUint(e.Val, 10), CNum, "integer")
	case *influxql.NumberLiteral:
		v := e.Val
		if v < 0 || (v == 0 && math.Signbit(v)) {
			b.Raw("-", COp, "unary-")
			v = -v
		} else if !b.Plain && g.Rg.P(0.08) {
			b.Raw("+", COp, "unary+")
			g.feat("spell.plus-number")
		}
		b.Raw(g.FloatSpell(v), CNum, "number")
	case *influxql.StringLiteral:
		b.Str(e.Val)
	case *influxql.BooleanLiteral:
		if e.Val {
			b.Kw("TRUE")
		} else {
			b.Kw("FALSE")
		}
	case *influxql.DurationLiteral:
		d := e.Val
		if d < 0 {
			b.Raw("-", COp, "unary-")
			d = -d
		} else if !b.Plain && g.Rg.P(0.1) {
			b.Raw("+", COp, "unary+")
			g.feat("spell.plus-duration")
		}
		b.Raw(g.DurSpell(d), CDur, "duration")
	case *influxql.RegexLiteral:
		b.Regex(e.Val.String())
	case *influxql.Wildcard:
		b.Raw("*", CWild, "*")
		switch e.Type {
		case influxql.FIELD:
			b.PNone("::")
			b.RawGap(b.kwSpell("FIELD"), CKw, "cast", GapNone)
		case influxql.TAG:
			b.PNone("::")
			b.RawGap(b.kwSpell("TAG"), CKw, "cast", GapNone)
		}
	case *influxql.Distinct:
		b.Kw("DISTINCT")
		b.Ident(e.Val)
		b.ForceGap(GapReq)
	case *influxql.Call:
		name := e.Name
		if name == "distinct" && !g.quotedCall[e] && (b.Plain || g.Rg.P(0.7)) {
			b.Kw("DISTINCT")
		} else if bareOK(name) && !b.QuoteAll {
			sp := name
			if !b.Plain && g.Rg.P(0.3) {
				sp = strings.ToUpper(name)
				g.feat("spell.call-uppercase")
			}
			b.Raw(sp, CIdent, "call")
		} else {
			b.Raw(b.QuoteIdentSpell(name), CQIdent, "call")
		}
		b.PNone("(")
		for i, a := range e.Args {
			if i > 0 {
				b.P(",")
			}
			g.Emit(a)
		}
		b.P(")")
	default:
		panic("gen: cannot emit " + e.String())
	}
}

var _ = mon.Hash64
