package gen

import (
	"strconv"
	"time"

	"github.com/influxdata/influxql"
)

// Kind describes one statement kind and its optional clauses.
type Kind struct {
	Name    string
	Clauses []string
	gen     func(g *G, on func(string) bool) influxql.Statement
}

// Kinds lists every statement kind the parser can produce.
var Kinds []Kind

func reg(name string, clauses []string, f func(g *G, on func(string) bool) influxql.Statement) {
	Kinds = append(Kinds, Kind{Name: name, Clauses: clauses, gen: f})
}

// KindIndex finds a kind by name.
func KindIndex(name string) int {
	for i, k := range Kinds {
		if k.Name == name {
			return i
		}
	}
	return -1
}

// Statement generates statement kind k. mask < 0 draws each optional clause
// at random; otherwise bit i selects Clauses[i].
func (g *G) Statement(k int, mask int) influxql.Statement {
	kd := Kinds[k]
	on := func(name string) bool {
		for i, c := range kd.Clauses {
			if c == name {
				var v bool
				if mask < 0 {
					v = g.Rg.P(0.45)
				} else {
					v = mask&(1<<uint(i)) != 0
				}
				if v {
					g.feat("clause." + kd.Name + "." + name + ".on")
				} else {
					g.feat("clause." + kd.Name + "." + name + ".off")
				}
				return v
			}
		}
		panic("gen: unknown clause " + name + " for " + kd.Name)
	}
	g.feat("kind." + kd.Name)
	return kd.gen(g, on)
}

func (g *G) posInt() int {
	g.n++
	return g.n*7 + g.Rg.Intn(5) + 1
}

// countInt is a row / series count: small, or (outside Simple mode) at the
// 32- and 64-bit boundaries.
func (g *G) countInt() int {
	if !g.Opt.Simple && g.Rg.P(0.1) {
		g.feat("count.boundary")
		return []int{2147483647, 2147483648, 4294967295, 4294967296, 9223372036854775807}[g.Rg.Intn(5)]
	}
	return g.posInt()
}

func (g *G) intTok(n int) { g.B.Raw(strconv.Itoa(n), CNum, "integer") }

func (g *G) durTok(d time.Duration) { g.B.Raw(g.DurSpell(d), CDur, "duration") }

// limitTok writes a write-limit duration; no limit (zero) may be spelled INF.
func (g *G) limitTok(d time.Duration) {
	if d == 0 && !g.B.Plain && g.Rg.Bool() {
		g.B.Kw("INF")
		g.feat("limit.inf")
		return
	}
	g.durTok(d)
}

// anyDur is posDur, or (outside Simple mode, one time in eight) zero.
func (g *G) anyDur() time.Duration {
	if !g.Opt.Simple && g.Rg.P(0.125) {
		g.feat("dur.zero")
		return 0
	}
	return g.posDur()
}

func (g *G) posDur() time.Duration {
	if g.Opt.Simple {
		return time.Duration(g.next()%170+1) * time.Minute
	}
	d := g.durs[1+g.Rg.Intn(len(g.durs)-1)]
	return d + time.Duration(g.next()%60)*time.Minute
}

// ---- sources, targets, conditions, dimensions ------------------------------

type srcOpts struct {
	noDB, noRP bool
	subq       bool
	depth      int
}

func (g *G) measurement(o srcOpts) *influxql.Measurement {
	b := g.B
	m := &influxql.Measurement{}
	form := g.Rg.Intn(8)
	if g.Opt.Simple {
		form = 0
	}
	if o.noDB && (form == 2 || form == 3 || form == 6 || form == 7) {
		form = 1
	}
	if o.noRP && form != 4 {
		form = 0
	}
	switch form {
	case 0: // m
		m.Name = g.Name("m")
		b.Ident(m.Name)
	case 1: // rp.m
		m.RetentionPolicy, m.Name = g.Name("rp"), g.Name("m")
		b.Ident(m.RetentionPolicy)
		b.PNone(".")
		b.IdentAfterDot(m.Name)
	case 2: // db.rp.m
		m.Database, m.RetentionPolicy, m.Name = g.Name("db"), g.Name("rp"), g.Name("m")
		b.Ident(m.Database)
		b.PNone(".")
		b.IdentAfterDot(m.RetentionPolicy)
		b.PNone(".")
		b.IdentAfterDot(m.Name)
	case 3: // db..m
		m.Database, m.Name = g.Name("db"), g.Name("m")
		b.Ident(m.Database)
		b.PNone(".")
		b.PNone(".")
		b.IdentAfterDot(m.Name)
	case 4: // /re/
		m.Regex = g.regexLit()
		b.Regex(m.Regex.Val.String())
	case 5: // rp./re/
		m.RetentionPolicy = g.Name("rp")
		m.Regex = g.regexLit()
		b.Ident(m.RetentionPolicy)
		b.PNone(".")
		b.Regex(m.Regex.Val.String())
		b.ForceGap(GapNone)
	case 6: // db.rp./re/
		m.Database, m.RetentionPolicy = g.Name("db"), g.Name("rp")
		m.Regex = g.regexLit()
		b.Ident(m.Database)
		b.PNone(".")
		b.IdentAfterDot(m.RetentionPolicy)
		b.PNone(".")
		b.Regex(m.Regex.Val.String())
		b.ForceGap(GapNone)
	case 7: // db../re/
		m.Database = g.Name("db")
		m.Regex = g.regexLit()
		b.Ident(m.Database)
		b.PNone(".")
		b.PNone(".")
		b.Regex(m.Regex.Val.String())
		b.ForceGap(GapNone)
	}
	g.feat("source.form." + strconv.Itoa(form))
	return m
}

func (g *G) sources(o srcOpts) influxql.Sources {
	n := 1
	if !g.Opt.Simple {
		n = 1 + g.Rg.Intn(3)
		if g.Rg.P(0.5) {
			n = 1
		}
	}
	var out influxql.Sources
	for i := 0; i < n; i++ {
		if i > 0 {
			g.B.P(",")
		}
		sp := g.Opt.SubqProb
		if sp == 0 {
			sp = 0.2
		}
		if o.subq && !g.Opt.NoSubq && o.depth > 0 && g.Rg.P(sp) {
			g.B.P("(")
			pInto := g.Opt.SubqInto
			if pInto == 0 && !g.Opt.Simple {
				pInto = 0.05
			}
			sub := g.selectStmt(func(c string) bool {
				if c == "INTO" {
					if g.Rg.P(pInto) {
						g.feat("subquery.into")
						return true
					}
					return false
				}
				return g.Rg.P(0.3)
			}, selOpts{depth: o.depth - 1})
			g.B.P(")")
			out = append(out, &influxql.SubQuery{Statement: sub})
			g.feat("source.subquery")
			continue
		}
		out = append(out, g.measurement(o))
	}
	return out
}

func (g *G) target() *influxql.Target {
	b := g.B
	m := &influxql.Measurement{IsTarget: true}
	form := g.Rg.Intn(7)
	if g.Opt.Simple {
		form = 0
	}
	backref := func() {
		b.PNone(":")
		b.RawGap(b.kwSpell("MEASUREMENT"), CKw, "MEASUREMENT", GapNone)
	}
	switch form {
	case 0:
		m.Name = g.Name("t")
		b.Ident(m.Name)
	case 1:
		m.RetentionPolicy, m.Name = g.Name("rp"), g.Name("t")
		b.Ident(m.RetentionPolicy)
		b.PNone(".")
		b.IdentAfterDot(m.Name)
	case 2:
		m.Database, m.RetentionPolicy, m.Name = g.Name("db"), g.Name("rp"), g.Name("t")
		b.Ident(m.Database)
		b.PNone(".")
		b.IdentAfterDot(m.RetentionPolicy)
		b.PNone(".")
		b.IdentAfterDot(m.Name)
	case 3:
		m.Database, m.Name = g.Name("db"), g.Name("t")
		b.Ident(m.Database)
		b.PNone(".")
		b.PNone(".")
		b.IdentAfterDot(m.Name)
	case 4: // rp.:MEASUREMENT
		m.RetentionPolicy = g.Name("rp")
		b.Ident(m.RetentionPolicy)
		b.PNone(".")
		backref()
	case 5: // db.rp.:MEASUREMENT
		m.Database, m.RetentionPolicy = g.Name("db"), g.Name("rp")
		b.Ident(m.Database)
		b.PNone(".")
		b.IdentAfterDot(m.RetentionPolicy)
		b.PNone(".")
		backref()
	case 6: // db..:MEASUREMENT
		m.Database = g.Name("db")
		b.Ident(m.Database)
		b.PNone(".")
		b.PNone(".")
		backref()
	}
	g.feat("target.form." + strconv.Itoa(form))
	return &influxql.Target{Measurement: m}
}

func (g *G) condition() influxql.Expr {
	if g.Opt.Simple {
		e := &influxql.BinaryExpr{Op: influxql.EQ, LHS: g.Ref(), RHS: &influxql.StringLiteral{Val: g.strVal()}}
		g.Emit(e)
		return e
	}
	e := g.Tree(CtxCond, g.Opt.MaxDepth)
	g.Emit(e)
	return e
}

func (g *G) whereClause() influxql.Expr {
	g.B.Kw("WHERE")
	return g.condition()
}

type dimOpts struct{ needTime bool }

func (g *G) dimensions(o dimOpts) influxql.Dimensions {
	b := g.B
	b.Kw("GROUP BY")
	var out influxql.Dimensions
	n := 1 + g.Rg.Intn(3)
	if g.Opt.Simple {
		n = 1
	}
	timeAt := -1
	if o.needTime || g.Rg.P(0.4) {
		timeAt = g.Rg.Intn(n)
	}
	for i := 0; i < n; i++ {
		if i > 0 {
			b.P(",")
		}
		if g.Opt.Odd && !o.needTime && g.Rg.P(0.4) {
			// odd but accepted dimensions
			var e influxql.Expr
			switch g.Rg.Intn(8) {
			case 6:
				e = &influxql.Call{Name: "time", Args: []influxql.Expr{&influxql.DurationLiteral{Val: 0}, &influxql.Call{Name: "now"}}}
			case 7:
				e = &influxql.Call{Name: "time", Args: []influxql.Expr{&influxql.DurationLiteral{Val: time.Minute}, &influxql.Call{Name: "now"}}}
			case 0:
				e = &influxql.Call{Name: "time"}
			case 1:
				e = &influxql.Call{Name: "time", Args: []influxql.Expr{&influxql.DurationLiteral{Val: 0}, &influxql.DurationLiteral{Val: time.Second}}}
			case 2:
				e = &influxql.Call{Name: "time", Args: []influxql.Expr{g.Tree(CtxCond, 1), g.Tree(CtxCond, 1), g.Tree(CtxCond, 0)}}
			case 3:
				e = &influxql.Call{Name: g.Rg.Pick("foo", "time", "mean"), Args: []influxql.Expr{g.Ref()}}
			case 4:
				e = &influxql.Call{Name: "time", Args: []influxql.Expr{&influxql.DurationLiteral{Val: -time.Minute}, &influxql.StringLiteral{Val: "2000-01-01T00:00:00Z"}}}
			default:
				e = g.Tree(CtxCond, 2)
			}
			g.Emit(e)
			out = append(out, &influxql.Dimension{Expr: e})
			g.feat("dim.odd")
			continue
		}
		switch {
		case i == timeAt:
			c := &influxql.Call{Name: "time", Args: []influxql.Expr{&influxql.DurationLiteral{Val: g.posDur()}}}
			if !g.Opt.Simple && g.Rg.P(0.3) {
				off := g.durs[g.Rg.Intn(len(g.durs))]
				if g.Rg.P(0.3) {
					off = -off
				}
				c.Args = append(c.Args, &influxql.DurationLiteral{Val: off})
				g.feat("dim.time-offset")
			} else if !g.Opt.Simple && g.Rg.P(0.12) {
				// the offset given as an instant: now() or a time string
				if g.Rg.Bool() {
					c.Args = append(c.Args, &influxql.Call{Name: "now"})
				} else {
					c.Args = append(c.Args, &influxql.StringLiteral{Val: g.Rg.Pick("2000-01-01T00:00:00Z", "2000-01-01", "2016-02-29 12:30:00")})
				}
				g.feat("dim.time-offset-instant")
			}
			g.Emit(c)
			out = append(out, &influxql.Dimension{Expr: c})
			g.feat("dim.time")
		case !g.Opt.Simple && !o.needTime && g.Rg.P(0.12):
			w := &influxql.Wildcard{}
			g.Emit(w)
			out = append(out, &influxql.Dimension{Expr: w})
			g.feat("dim.wildcard")
		case !g.Opt.Simple && !o.needTime && g.Rg.P(0.12):
			re := g.regexLit()
			g.Emit(re)
			out = append(out, &influxql.Dimension{Expr: re})
			g.feat("dim.regex")
		default:
			v := &influxql.VarRef{Val: g.Name("tag")}
			g.Emit(v)
			out = append(out, &influxql.Dimension{Expr: v})
			g.feat("dim.tag")
		}
	}
	return out
}

func (g *G) orderBy() influxql.SortFields {
	b := g.B
	b.Kw("ORDER BY")
	sf := &influxql.SortField{Ascending: true}
	switch g.Rg.Intn(5) {
	case 0:
		b.Kw("ASC")
	case 1:
		b.Kw("DESC")
		sf.Ascending = false
	case 2:
		sf.Name = "time"
		g.timeIdent()
	case 3:
		sf.Name = "time"
		g.timeIdent()
		b.Kw("ASC")
	default:
		sf.Name = "time"
		g.timeIdent()
		b.Kw("DESC")
		sf.Ascending = false
	}
	return influxql.SortFields{sf}
}

func (g *G) timeIdent() {
	if g.B.Plain || g.Rg.P(0.8) {
		g.B.Raw("time", CIdent, "ident")
	} else {
		g.B.Raw(`"time"`, CQIdent, "ident")
	}
}

func (g *G) limitOffset(on func(string) bool, limit, offset *int) {
	if on("LIMIT") {
		*limit = g.countInt()
		g.B.Kw("LIMIT")
		g.intTok(*limit)
	}
	if on("OFFSET") {
		*offset = g.countInt()
		g.B.Kw("OFFSET")
		g.intTok(*offset)
	}
}

// ---- SELECT -----------------------------------------------------------------

type selOpts struct {
	depth     int
	needInto  bool
	cq        bool // continuous query body: aggregated queries need GROUP BY time(d)
	forceAgg  bool
	minFields bool
}

func hasCall(e influxql.Node) bool {
	found := false
	influxql.WalkFunc(e, func(n influxql.Node) {
		if _, ok := n.(*influxql.Call); ok {
			found = true
		}
	})
	return found
}

func (g *G) field() *influxql.Field {
	f := &influxql.Field{}
	k := g.Rg.Intn(14)
	if g.Opt.Simple {
		k = 5 + g.Rg.Intn(2)
	}
	switch {
	case g.Opt.Odd && g.Rg.P(0.15):
		// the time column written as a field (any number of times, with or without alias)
		v := &influxql.VarRef{Val: "time"}
		g.segs[v] = []string{"time"}
		f.Expr = v
		g.feat("field.time")
	case k == 0:
		f.Expr = g.Wildcard()
		g.feat("field.wildcard")
	case k == 1:
		f.Expr = g.regexLit()
		g.feat("field.regex")
	case k == 2:
		f.Expr = &influxql.Distinct{Val: g.Name("f")}
		g.feat("field.distinct")
	case k < 5:
		f.Expr = g.Call(CtxField, 2)
		g.feat("field.call")
	case k < 8:
		f.Expr = g.Ref()
		g.feat("field.ref")
	default:
		f.Expr = g.Tree(CtxField, g.Opt.MaxDepth)
		g.feat("field.expr")
	}
	g.Emit(f.Expr)
	if g.Rg.P(0.3) {
		f.Alias = g.Name("al")
		if !g.Opt.Simple && g.Rg.P(0.15) {
			// an alias that repeats the name the column would have anyway
			switch e := f.Expr.(type) {
			case *influxql.Call:
				f.Alias = e.Name
				g.feat("field.alias-equals-default-name")
			case *influxql.VarRef:
				if segs := g.segs[e]; len(segs) == 1 {
					f.Alias = e.Val
					g.feat("field.alias-equals-default-name")
				}
			}
		}
		g.B.Kw("AS")
		g.B.Ident(f.Alias)
		g.feat("field.alias")
	}
	return f
}

func (g *G) selectStmt(on func(string) bool, o selOpts) *influxql.SelectStatement {
	b := g.B
	s := &influxql.SelectStatement{}
	b.Kw("SELECT")
	nf := 1 + g.Rg.Intn(3)
	if g.Opt.Simple {
		nf = 1
	}
	for i := 0; i < nf; i++ {
		if i > 0 {
			b.P(",")
		}
		s.Fields = append(s.Fields, g.field())
	}
	if o.needInto || on("INTO") {
		b.Kw("INTO")
		s.Target = g.target()
	}
	b.Kw("FROM")
	s.Sources = g.sources(srcOpts{subq: true, depth: o.depth})
	if on("WHERE") {
		s.Condition = g.whereClause()
	}
	s.IsRawQuery = !hasCall(s.Fields)
	needTime := o.cq && !s.IsRawQuery
	if needTime || on("GROUPBY") {
		s.Dimensions = g.dimensions(dimOpts{needTime: needTime})
	}
	if on("FILL") {
		b.Raw("fill", CIdent, "fill")
		if !b.Plain && g.Rg.P(0.2) {
			b.Toks[len(b.Toks)-1].Text = "FILL"
		}
		b.PNone("(")
		switch g.Rg.Intn(7) {
		case 0:
			b.Raw("null", CIdent, "fillopt")
			s.Fill = influxql.NullFill
		case 1:
			b.Raw("none", CIdent, "fillopt")
			s.Fill = influxql.NoFill
		case 2:
			b.Raw("previous", CIdent, "fillopt")
			s.Fill = influxql.PreviousFill
		case 3:
			b.Raw("linear", CIdent, "fillopt")
			s.Fill = influxql.LinearFill
		case 4:
			v := int64(g.posInt())
			s.Fill, s.FillValue = influxql.NumberFill, v
			g.intTok(int(v))
		case 5:
			v := int64(g.posInt())
			s.Fill, s.FillValue = influxql.NumberFill, -v
			b.Raw("-", COp, "unary-")
			g.intTok(int(v))
		default:
			v := floatPool[1+g.Rg.Intn(len(floatPool)-1)]
			s.Fill, s.FillValue = influxql.NumberFill, v
			b.Raw(g.FloatSpell(v), CNum, "number")
			g.feat("fill.float")
		}
		b.P(")")
	}
	if on("ORDERBY") {
		s.SortFields = g.orderBy()
	}
	g.limitOffset(on, &s.Limit, &s.Offset)
	if on("SLIMIT") {
		s.SLimit = g.countInt()
		b.Kw("SLIMIT")
		g.intTok(s.SLimit)
	}
	if on("SOFFSET") {
		s.SOffset = g.countInt()
		b.Kw("SOFFSET")
		g.intTok(s.SOffset)
	}
	if on("TZ") {
		zone := g.Rg.Pick("UTC", "America/New_York", "Asia/Kolkata", "Europe/Berlin")
		loc, err := time.LoadLocation(zone)
		if err != nil {
			panic("gen: time zone database missing: " + err.Error())
		}
		s.Location = loc
		b.Raw("tz", CIdent, "tz")
		if !b.Plain && g.Rg.P(0.2) {
			b.Toks[len(b.Toks)-1].Text = "TZ"
		}
		b.PNone("(")
		b.Str(zone)
		b.P(")")
	}
	return s
}

var selClauses = []string{"INTO", "WHERE", "GROUPBY", "FILL", "ORDERBY", "LIMIT", "OFFSET", "SLIMIT", "SOFFSET", "TZ"}

// ---- helper clause sets for SHOW statements ----------------------------------

func (g *G) onDB(on func(string) bool, db *string) {
	if on("ON") {
		*db = g.Name("db")
		g.B.Kw("ON")
		g.B.Ident(*db)
	}
}

func (g *G) fromClause(on func(string) bool, src *influxql.Sources, o srcOpts) {
	if on("FROM") {
		g.B.Kw("FROM")
		*src = g.sources(o)
	}
}

func (g *G) withKey(op *influxql.Token, lit *influxql.Literal) {
	b := g.B
	b.Kw("WITH KEY")
	switch g.Rg.Intn(5) {
	case 0:
		*op = influxql.EQ
		b.Op("=")
		k := g.Name("k")
		b.Ident(k)
		*lit = &influxql.StringLiteral{Val: k}
	case 1:
		*op = influxql.NEQ
		b.Op(g.Rg.Pick("!=", "<>"))
		k := g.Name("k")
		b.Ident(k)
		*lit = &influxql.StringLiteral{Val: k}
	case 2:
		*op = influxql.IN
		b.Kw("IN")
		b.P("(")
		l := &influxql.ListLiteral{}
		n := 1 + g.Rg.Intn(3)
		for i := 0; i < n; i++ {
			if i > 0 {
				b.P(",")
			}
			k := g.Name("k")
			b.Ident(k)
			l.Vals = append(l.Vals, k)
		}
		b.P(")")
		*lit = l
	case 3:
		*op = influxql.EQREGEX
		b.Op("=~")
		re := g.regexLit()
		b.Regex(re.Val.String())
		*lit = re
	default:
		*op = influxql.NEQREGEX
		b.Op("!~")
		re := g.regexLit()
		b.Regex(re.Val.String())
		*lit = re
	}
	g.feat("withkey." + op.String())
}

func (g *G) cardTail(on func(string) bool, cond *influxql.Expr, dims *influxql.Dimensions, limit, offset *int) {
	if on("WHERE") {
		*cond = g.whereClause()
	}
	if on("GROUPBY") {
		*dims = g.dimensions(dimOpts{})
	}
	g.limitOffset(on, limit, offset)
}

var cardClauses = []string{"EXACT", "ON", "FROM", "WHERE", "GROUPBY", "LIMIT", "OFFSET"}

func init() {
	reg("Select", selClauses, func(g *G, on func(string) bool) influxql.Statement {
		d := 2
		if g.Opt.SubqDepth > 0 {
			d = g.Opt.SubqDepth
		}
		return g.selectStmt(on, selOpts{depth: d})
	})
	reg("Explain", append([]string{"ANALYZE", "VERBOSE"}, selClauses...), func(g *G, on func(string) bool) influxql.Statement {
		e := &influxql.ExplainStatement{}
		g.B.Kw("EXPLAIN")
		if on("ANALYZE") {
			e.Analyze = true
			g.B.Kw("ANALYZE")
		}
		if on("VERBOSE") {
			e.Verbose = true
			g.B.Kw("VERBOSE")
		}
		d := 1
		if g.Opt.SubqDepth > 0 {
			d = g.Opt.SubqDepth
		}
		e.Statement = g.selectStmt(on, selOpts{depth: d})
		return e
	})
	reg("Delete", []string{"FROM", "WHERE"}, func(g *G, on func(string) bool) influxql.Statement {
		s := &influxql.DeleteSeriesStatement{}
		g.B.Kw("DELETE")
		f, w := on("FROM"), on("WHERE")
		if !f && !w {
			f = true
		}
		if f {
			g.B.Kw("FROM")
			s.Sources = g.sources(srcOpts{noDB: true})
		}
		if w {
			s.Condition = g.whereClause()
		}
		return s
	})
	reg("DropSeries", []string{"FROM", "WHERE"}, func(g *G, on func(string) bool) influxql.Statement {
		s := &influxql.DropSeriesStatement{}
		g.B.Kw("DROP SERIES")
		f, w := on("FROM"), on("WHERE")
		if !f && !w {
			w = true
		}
		if f {
			g.B.Kw("FROM")
			s.Sources = g.sources(srcOpts{noDB: true, noRP: true})
		}
		if w {
			s.Condition = g.whereClause()
		}
		return s
	})
	reg("CreateDatabase", []string{"DURATION", "REPLICATION", "SHARD", "FUTURE", "PAST", "NAME"}, func(g *G, on func(string) bool) influxql.Statement {
		b := g.B
		s := &influxql.CreateDatabaseStatement{Name: g.Name("db")}
		b.Kw("CREATE DATABASE")
		b.Ident(s.Name)
		var any bool
		with := func() {
			if !any {
				b.Kw("WITH")
				s.RetentionPolicyCreate = true
				any = true
			}
		}
		if on("DURATION") {
			with()
			b.Kw("DURATION")
			d := g.posDur()
			if g.Rg.P(0.15) {
				d = 0
				b.Kw("INF")
			} else {
				g.durTok(d)
			}
			s.RetentionPolicyDuration = &d
		}
		if on("REPLICATION") {
			with()
			n := g.posInt()
			b.Kw("REPLICATION")
			g.intTok(n)
			s.RetentionPolicyReplication = &n
		}
		if on("SHARD") {
			with()
			b.Kw("SHARD DURATION")
			s.RetentionPolicyShardGroupDuration = g.anyDur()
			g.durTok(s.RetentionPolicyShardGroupDuration)
		}
		if on("FUTURE") {
			with()
			d := g.anyDur()
			b.Kw("FUTURE LIMIT")
			g.limitTok(d)
			s.FutureWriteLimit = &d
		}
		if on("PAST") {
			with()
			d := g.anyDur()
			b.Kw("PAST LIMIT")
			g.limitTok(d)
			s.PastWriteLimit = &d
		}
		if on("NAME") {
			with()
			s.RetentionPolicyName = g.Name("rp")
			b.Kw("NAME")
			b.Ident(s.RetentionPolicyName)
		}
		return s
	})
	reg("CreateRetentionPolicy", []string{"SHARD", "DEFAULT", "FUTURE", "PAST"}, func(g *G, on func(string) bool) influxql.Statement {
		b := g.B
		s := &influxql.CreateRetentionPolicyStatement{Name: g.Name("rp"), Database: g.Name("db")}
		b.Kw("CREATE RETENTION POLICY")
		b.Ident(s.Name)
		b.Kw("ON")
		b.Ident(s.Database)
		b.Kw("DURATION")
		if g.Rg.P(0.15) {
			b.Kw("INF")
		} else {
			s.Duration = g.posDur()
			g.durTok(s.Duration)
		}
		s.Replication = g.posInt()
		b.Kw("REPLICATION")
		g.intTok(s.Replication)
		if on("SHARD") {
			s.ShardGroupDuration = g.anyDur()
			b.Kw("SHARD DURATION")
			g.durTok(s.ShardGroupDuration)
		}
		if on("DEFAULT") {
			s.Default = true
			b.Kw("DEFAULT")
		}
		if on("FUTURE") {
			s.FutureWriteLimit = g.anyDur()
			b.Kw("FUTURE LIMIT")
			g.limitTok(s.FutureWriteLimit)
		}
		if on("PAST") {
			s.PastWriteLimit = g.anyDur()
			b.Kw("PAST LIMIT")
			g.limitTok(s.PastWriteLimit)
		}
		return s
	})
	reg("AlterRetentionPolicy", []string{"DURATION", "REPLICATION", "SHARD", "DEFAULT", "FUTURE", "PAST"}, func(g *G, on func(string) bool) influxql.Statement {
		b := g.B
		s := &influxql.AlterRetentionPolicyStatement{}
		b.Kw("ALTER RETENTION POLICY")
		if !g.Opt.Simple && g.Rg.P(0.15) {
			s.Name = "default"
			b.Kw("DEFAULT")
			g.feat("alter.default-as-name")
		} else {
			s.Name = g.Name("rp")
			b.Ident(s.Name)
		}
		s.Database = g.Name("db")
		b.Kw("ON")
		b.Ident(s.Database)
		opts := []string{"DURATION", "REPLICATION", "SHARD", "DEFAULT", "FUTURE", "PAST"}
		var chosen []string
		for _, o := range opts {
			if on(o) {
				chosen = append(chosen, o)
			}
		}
		if len(chosen) == 0 {
			chosen = []string{opts[g.Rg.Intn(len(opts))]}
		}
		if !g.Opt.Simple {
			g.Rg.Shuffle(len(chosen), func(i, j int) { chosen[i], chosen[j] = chosen[j], chosen[i] })
		}
		for _, o := range chosen {
			switch o {
			case "DURATION":
				d := g.posDur()
				b.Kw("DURATION")
				if g.Rg.P(0.15) {
					d = 0
					b.Kw("INF")
				} else {
					g.durTok(d)
				}
				s.Duration = &d
			case "REPLICATION":
				n := g.posInt()
				b.Kw("REPLICATION")
				g.intTok(n)
				s.Replication = &n
			case "SHARD":
				d := g.posDur()
				b.Kw("SHARD DURATION")
				g.durTok(d)
				s.ShardGroupDuration = &d
			case "DEFAULT":
				s.Default = true
				b.Kw("DEFAULT")
			case "FUTURE":
				d := g.anyDur()
				b.Kw("FUTURE LIMIT")
				g.limitTok(d)
				s.FutureWriteLimit = &d
			case "PAST":
				d := g.anyDur()
				b.Kw("PAST LIMIT")
				g.limitTok(d)
				s.PastWriteLimit = &d
			}
		}
		return s
	})
	reg("CreateUser", []string{"ADMIN"}, func(g *G, on func(string) bool) influxql.Statement {
		b := g.B
		s := &influxql.CreateUserStatement{Name: g.Name("user"), Password: g.strVal() + "pw"}
		g.Passwords = append(g.Passwords, s.Password)
		b.Kw("CREATE USER")
		b.Ident(s.Name)
		b.Kw("WITH PASSWORD")
		b.Str(s.Password)
		if on("ADMIN") {
			s.Admin = true
			b.Kw("WITH ALL PRIVILEGES")
		}
		return s
	})
	reg("SetPassword", nil, func(g *G, on func(string) bool) influxql.Statement {
		b := g.B
		s := &influxql.SetPasswordUserStatement{Name: g.Name("user"), Password: g.strVal() + "pw"}
		g.Passwords = append(g.Passwords, s.Password)
		b.Kw("SET PASSWORD FOR")
		b.Ident(s.Name)
		b.Op("=")
		b.Str(s.Password)
		return s
	})
	reg("CreateSubscription", nil, func(g *G, on func(string) bool) influxql.Statement {
		b := g.B
		s := &influxql.CreateSubscriptionStatement{Name: g.Name("sub"), Database: g.Name("db"), RetentionPolicy: g.Name("rp")}
		b.Kw("CREATE SUBSCRIPTION")
		b.Ident(s.Name)
		b.Kw("ON")
		b.Ident(s.Database)
		b.PNone(".")
		b.IdentNone(s.RetentionPolicy)
		b.Kw("DESTINATIONS")
		s.Mode = g.Rg.Pick("ALL", "ANY")
		b.Kw(s.Mode)
		n := 1 + g.Rg.Intn(3)
		for i := 0; i < n; i++ {
			if i > 0 {
				b.P(",")
			}
			d := "udp://h" + strconv.Itoa(g.next()) + ":9000"
			if g.Opt.Hostile {
				d = g.strVal()
			}
			s.Destinations = append(s.Destinations, d)
			b.Str(d)
		}
		return s
	})
	reg("CreateContinuousQuery", append([]string{"EVERY", "FOR"}, selClauses[1:]...), func(g *G, on func(string) bool) influxql.Statement {
		b := g.B
		s := &influxql.CreateContinuousQueryStatement{Name: g.Name("cq"), Database: g.Name("db")}
		b.Kw("CREATE CONTINUOUS QUERY")
		b.Ident(s.Name)
		b.Kw("ON")
		b.Ident(s.Database)
		ev, fr := on("EVERY"), on("FOR")
		if ev || fr {
			b.Kw("RESAMPLE")
		}
		if ev {
			s.ResampleEvery = time.Duration(1+g.Rg.Intn(50)) * time.Second
			b.Kw("EVERY")
			g.durTok(s.ResampleEvery)
		}
		if fr {
			// FOR must be >= max(EVERY, GROUP BY interval); intervals below stay <= 3h
			s.ResampleFor = time.Duration(4+g.Rg.Intn(20)) * time.Hour
			b.Kw("FOR")
			g.durTok(s.ResampleFor)
		}
		b.Kw("BEGIN")
		sel := func(c string) bool {
			if c == "INTO" {
				return true
			}
			return on(c)
		}
		s.Source = g.cqSelect(sel)
		b.Kw("END")
		return s
	})
	reg("DropContinuousQuery", nil, func(g *G, on func(string) bool) influxql.Statement {
		s := &influxql.DropContinuousQueryStatement{Name: g.Name("cq"), Database: g.Name("db")}
		g.B.Kw("DROP CONTINUOUS QUERY")
		g.B.Ident(s.Name)
		g.B.Kw("ON")
		g.B.Ident(s.Database)
		return s
	})
	reg("DropDatabase", nil, func(g *G, on func(string) bool) influxql.Statement {
		s := &influxql.DropDatabaseStatement{Name: g.Name("db")}
		g.B.Kw("DROP DATABASE")
		g.B.Ident(s.Name)
		return s
	})
	reg("DropMeasurement", nil, func(g *G, on func(string) bool) influxql.Statement {
		s := &influxql.DropMeasurementStatement{Name: g.Name("m")}
		g.B.Kw("DROP MEASUREMENT")
		g.B.Ident(s.Name)
		return s
	})
	reg("DropRetentionPolicy", nil, func(g *G, on func(string) bool) influxql.Statement {
		s := &influxql.DropRetentionPolicyStatement{Name: g.Name("rp"), Database: g.Name("db")}
		g.B.Kw("DROP RETENTION POLICY")
		g.B.Ident(s.Name)
		g.B.Kw("ON")
		g.B.Ident(s.Database)
		return s
	})
	reg("DropShard", nil, func(g *G, on func(string) bool) influxql.Statement {
		s := &influxql.DropShardStatement{ID: uint64(g.posInt())}
		if !g.Opt.Simple && g.Rg.P(0.1) {
			s.ID = 18446744073709551615
		}
		g.B.Kw("DROP SHARD")
		g.B.Raw(strconv.FormatUint(s.ID, 10), CNum, "integer")
		return s
	})
	reg("DropSubscription", nil, func(g *G, on func(string) bool) influxql.Statement {
		s := &influxql.DropSubscriptionStatement{Name: g.Name("sub"), Database: g.Name("db"), RetentionPolicy: g.Name("rp")}
		g.B.Kw("DROP SUBSCRIPTION")
		g.B.Ident(s.Name)
		g.B.Kw("ON")
		g.B.Ident(s.Database)
		g.B.PNone(".")
		g.B.IdentNone(s.RetentionPolicy)
		return s
	})
	reg("DropUser", nil, func(g *G, on func(string) bool) influxql.Statement {
		s := &influxql.DropUserStatement{Name: g.Name("user")}
		g.B.Kw("DROP USER")
		g.B.Ident(s.Name)
		return s
	})
	priv := func(g *G) influxql.Privilege {
		switch g.Rg.Intn(4) {
		case 0:
			g.B.Kw("READ")
			return influxql.ReadPrivilege
		case 1:
			g.B.Kw("WRITE")
			return influxql.WritePrivilege
		case 2:
			g.B.Kw("ALL")
			return influxql.AllPrivileges
		}
		g.B.Kw("ALL PRIVILEGES")
		return influxql.AllPrivileges
	}
	reg("Grant", nil, func(g *G, on func(string) bool) influxql.Statement {
		s := &influxql.GrantStatement{}
		g.B.Kw("GRANT")
		s.Privilege = priv(g)
		s.On, s.User = g.Name("db"), g.Name("user")
		g.B.Kw("ON")
		g.B.Ident(s.On)
		g.B.Kw("TO")
		g.B.Ident(s.User)
		return s
	})
	reg("GrantAdmin", nil, func(g *G, on func(string) bool) influxql.Statement {
		s := &influxql.GrantAdminStatement{User: g.Name("user")}
		g.B.Kw("GRANT")
		g.B.Kw(g.Rg.Pick("ALL", "ALL PRIVILEGES"))
		g.B.Kw("TO")
		g.B.Ident(s.User)
		return s
	})
	reg("Revoke", nil, func(g *G, on func(string) bool) influxql.Statement {
		s := &influxql.RevokeStatement{}
		g.B.Kw("REVOKE")
		s.Privilege = priv(g)
		s.On, s.User = g.Name("db"), g.Name("user")
		g.B.Kw("ON")
		g.B.Ident(s.On)
		g.B.Kw("FROM")
		g.B.Ident(s.User)
		return s
	})
	reg("RevokeAdmin", nil, func(g *G, on func(string) bool) influxql.Statement {
		s := &influxql.RevokeAdminStatement{User: g.Name("user")}
		g.B.Kw("REVOKE")
		g.B.Kw(g.Rg.Pick("ALL", "ALL PRIVILEGES"))
		g.B.Kw("FROM")
		g.B.Ident(s.User)
		return s
	})
	reg("KillQuery", []string{"ON"}, func(g *G, on func(string) bool) influxql.Statement {
		s := &influxql.KillQueryStatement{QueryID: uint64(g.posInt())}
		g.B.Kw("KILL QUERY")
		g.B.Raw(strconv.FormatUint(s.QueryID, 10), CNum, "integer")
		if on("ON") {
			s.Host = g.Name("host")
			g.B.Kw("ON")
			g.B.Ident(s.Host)
		}
		return s
	})
	simple := func(name, kws string, mk func() influxql.Statement) {
		reg(name, nil, func(g *G, on func(string) bool) influxql.Statement {
			g.B.Kw(kws)
			return mk()
		})
	}
	simple("ShowContinuousQueries", "SHOW CONTINUOUS QUERIES", func() influxql.Statement { return &influxql.ShowContinuousQueriesStatement{} })
	simple("ShowDatabases", "SHOW DATABASES", func() influxql.Statement { return &influxql.ShowDatabasesStatement{} })
	simple("ShowQueries", "SHOW QUERIES", func() influxql.Statement { return &influxql.ShowQueriesStatement{} })
	simple("ShowShardGroups", "SHOW SHARD GROUPS", func() influxql.Statement { return &influxql.ShowShardGroupsStatement{} })
	simple("ShowShards", "SHOW SHARDS", func() influxql.Statement { return &influxql.ShowShardsStatement{} })
	simple("ShowSubscriptions", "SHOW SUBSCRIPTIONS", func() influxql.Statement { return &influxql.ShowSubscriptionsStatement{} })
	simple("ShowUsers", "SHOW USERS", func() influxql.Statement { return &influxql.ShowUsersStatement{} })
	reg("ShowDiagnostics", []string{"FOR"}, func(g *G, on func(string) bool) influxql.Statement {
		s := &influxql.ShowDiagnosticsStatement{}
		g.B.Kw("SHOW DIAGNOSTICS")
		if on("FOR") {
			s.Module = "mod" + g.strVal()
			g.B.Kw("FOR")
			g.B.Str(s.Module)
		}
		return s
	})
	reg("ShowStats", []string{"FOR"}, func(g *G, on func(string) bool) influxql.Statement {
		s := &influxql.ShowStatsStatement{}
		g.B.Kw("SHOW STATS")
		if on("FOR") {
			s.Module = "mod" + g.strVal()
			g.B.Kw("FOR")
			g.B.Str(s.Module)
		}
		return s
	})
	reg("ShowGrantsForUser", nil, func(g *G, on func(string) bool) influxql.Statement {
		s := &influxql.ShowGrantsForUserStatement{Name: g.Name("user")}
		g.B.Kw("SHOW GRANTS FOR")
		g.B.Ident(s.Name)
		return s
	})
	reg("ShowRetentionPolicies", []string{"ON"}, func(g *G, on func(string) bool) influxql.Statement {
		s := &influxql.ShowRetentionPoliciesStatement{}
		g.B.Kw("SHOW RETENTION POLICIES")
		g.onDB(on, &s.Database)
		return s
	})
	reg("ShowFieldKeys", []string{"ON", "FROM", "ORDERBY", "LIMIT", "OFFSET"}, func(g *G, on func(string) bool) influxql.Statement {
		s := &influxql.ShowFieldKeysStatement{}
		g.B.Kw("SHOW FIELD KEYS")
		g.onDB(on, &s.Database)
		g.fromClause(on, &s.Sources, srcOpts{})
		if on("ORDERBY") {
			s.SortFields = g.orderBy()
		}
		g.limitOffset(on, &s.Limit, &s.Offset)
		return s
	})
	reg("ShowSeries", []string{"ON", "FROM", "WHERE", "ORDERBY", "LIMIT", "OFFSET"}, func(g *G, on func(string) bool) influxql.Statement {
		s := &influxql.ShowSeriesStatement{}
		g.B.Kw("SHOW SERIES")
		g.onDB(on, &s.Database)
		g.fromClause(on, &s.Sources, srcOpts{})
		if on("WHERE") {
			s.Condition = g.whereClause()
		}
		if on("ORDERBY") {
			s.SortFields = g.orderBy()
		}
		g.limitOffset(on, &s.Limit, &s.Offset)
		return s
	})
	reg("ShowMeasurements", []string{"ON", "WITH", "WHERE", "ORDERBY", "LIMIT", "OFFSET"}, func(g *G, on func(string) bool) influxql.Statement {
		b := g.B
		s := &influxql.ShowMeasurementsStatement{}
		b.Kw("SHOW MEASUREMENTS")
		if on("ON") {
			b.Kw("ON")
			switch f := g.Rg.Intn(5); {
			case f == 0 && !g.Opt.Simple:
				s.WildcardDatabase = true
				b.Raw("*", CWild, "*")
			case f == 1 && !g.Opt.Simple:
				// this ON clause is the one dotted name with whitespace legal on
				// both sides of the dot
				s.WildcardDatabase, s.WildcardRetentionPolicy = true, true
				b.Raw("*", CWild, "*")
				b.RawGap(".", CPunct, ".", GapRare)
				b.RawGap("*", CWild, "*", GapRare)
			case f == 2 && !g.Opt.Simple:
				s.Database, s.WildcardRetentionPolicy = g.Name("db"), true
				b.Ident(s.Database)
				b.RawGap(".", CPunct, ".", GapRare)
				b.RawGap("*", CWild, "*", GapRare)
			case f == 3 && !g.Opt.Simple:
				s.Database, s.RetentionPolicy = g.Name("db"), g.Name("rp")
				b.Ident(s.Database)
				b.RawGap(".", CPunct, ".", GapRare)
				b.IdentAfterDot(s.RetentionPolicy)
			default:
				s.Database = g.Name("db")
				b.Ident(s.Database)
			}
		}
		if on("WITH") {
			b.Kw("WITH MEASUREMENT")
			if g.Rg.Bool() && !g.Opt.Simple {
				b.Op("=~")
				re := g.regexLit()
				b.Regex(re.Val.String())
				s.Source = &influxql.Measurement{Regex: re}
			} else {
				b.Op("=")
				m := &influxql.Measurement{Name: g.Name("m")}
				b.Ident(m.Name)
				s.Source = m
			}
		}
		if on("WHERE") {
			s.Condition = g.whereClause()
		}
		if on("ORDERBY") {
			s.SortFields = g.orderBy()
		}
		g.limitOffset(on, &s.Limit, &s.Offset)
		return s
	})
	reg("ShowTagKeys", []string{"ON", "FROM", "WITH", "WHERE", "ORDERBY", "LIMIT", "OFFSET", "SLIMIT", "SOFFSET"}, func(g *G, on func(string) bool) influxql.Statement {
		s := &influxql.ShowTagKeysStatement{}
		g.B.Kw("SHOW TAG KEYS")
		g.onDB(on, &s.Database)
		g.fromClause(on, &s.Sources, srcOpts{})
		if on("WITH") {
			var lit influxql.Literal
			g.withKey(&s.TagKeyOp, &lit)
			s.TagKeyExpr = lit
		}
		if on("WHERE") {
			s.Condition = g.whereClause()
		}
		if on("ORDERBY") {
			s.SortFields = g.orderBy()
		}
		g.limitOffset(on, &s.Limit, &s.Offset)
		if on("SLIMIT") {
			s.SLimit = g.countInt()
			g.B.Kw("SLIMIT")
			g.intTok(s.SLimit)
		}
		if on("SOFFSET") {
			s.SOffset = g.countInt()
			g.B.Kw("SOFFSET")
			g.intTok(s.SOffset)
		}
		return s
	})
	reg("ShowTagValues", []string{"ON", "FROM", "WHERE", "ORDERBY", "LIMIT", "OFFSET"}, func(g *G, on func(string) bool) influxql.Statement {
		s := &influxql.ShowTagValuesStatement{}
		g.B.Kw("SHOW TAG VALUES")
		g.onDB(on, &s.Database)
		g.fromClause(on, &s.Sources, srcOpts{})
		g.withKey(&s.Op, &s.TagKeyExpr)
		if on("WHERE") {
			s.Condition = g.whereClause()
		}
		if on("ORDERBY") {
			s.SortFields = g.orderBy()
		}
		g.limitOffset(on, &s.Limit, &s.Offset)
		return s
	})
	exact := func(g *G, on func(string) bool, pre, post string) bool {
		g.B.Kw(pre)
		e := on("EXACT")
		if e {
			g.B.Kw("EXACT")
		}
		g.B.Kw(post)
		return e
	}
	reg("ShowSeriesCardinality", cardClauses, func(g *G, on func(string) bool) influxql.Statement {
		s := &influxql.ShowSeriesCardinalityStatement{}
		s.Exact = exact(g, on, "SHOW SERIES", "CARDINALITY")
		g.onDB(on, &s.Database)
		g.fromClause(on, &s.Sources, srcOpts{})
		g.cardTail(on, &s.Condition, &s.Dimensions, &s.Limit, &s.Offset)
		return s
	})
	reg("ShowMeasurementCardinality", cardClauses, func(g *G, on func(string) bool) influxql.Statement {
		s := &influxql.ShowMeasurementCardinalityStatement{}
		s.Exact = exact(g, on, "SHOW MEASUREMENT", "CARDINALITY")
		g.onDB(on, &s.Database)
		g.fromClause(on, &s.Sources, srcOpts{})
		g.cardTail(on, &s.Condition, &s.Dimensions, &s.Limit, &s.Offset)
		return s
	})
	reg("ShowTagKeyCardinality", cardClauses, func(g *G, on func(string) bool) influxql.Statement {
		s := &influxql.ShowTagKeyCardinalityStatement{}
		s.Exact = exact(g, on, "SHOW TAG KEY", "CARDINALITY")
		g.onDB(on, &s.Database)
		g.fromClause(on, &s.Sources, srcOpts{})
		g.cardTail(on, &s.Condition, &s.Dimensions, &s.Limit, &s.Offset)
		return s
	})
	reg("ShowFieldKeyCardinality", cardClauses, func(g *G, on func(string) bool) influxql.Statement {
		s := &influxql.ShowFieldKeyCardinalityStatement{}
		s.Exact = exact(g, on, "SHOW FIELD KEY", "CARDINALITY")
		g.onDB(on, &s.Database)
		g.fromClause(on, &s.Sources, srcOpts{})
		g.cardTail(on, &s.Condition, &s.Dimensions, &s.Limit, &s.Offset)
		return s
	})
	reg("ShowTagValuesCardinality", cardClauses, func(g *G, on func(string) bool) influxql.Statement {
		s := &influxql.ShowTagValuesCardinalityStatement{}
		s.Exact = exact(g, on, "SHOW TAG VALUES", "CARDINALITY")
		g.onDB(on, &s.Database)
		g.fromClause(on, &s.Sources, srcOpts{})
		g.withKey(&s.Op, &s.TagKeyExpr)
		g.cardTail(on, &s.Condition, &s.Dimensions, &s.Limit, &s.Offset)
		return s
	})
}

// cqSelect builds the body of a continuous query: INTO is required and an
// aggregated body needs GROUP BY time(d) with a non-zero interval that does
// not exceed RESAMPLE FOR (intervals are kept <= 3h, FOR >= 4h).
func (g *G) cqSelect(on func(string) bool) *influxql.SelectStatement {
	save := g.durs
	g.durs = []time.Duration{0, time.Second, 90 * time.Second, time.Minute, 10 * time.Minute, time.Hour, 90 * time.Minute}
	defer func() { g.durs = save }()
	return g.selectStmt(on, selOpts{depth: 1, needInto: true, cq: true})
}
