package gen

import "strings"

// Keywords is the harness's own copy of the reserved words (written down from
// the README keyword table plus AND, OR, TRUE, FALSE), so that the generator
// does not depend on influxql.Lookup.
var Keywords = strings.Fields(`ALL ALTER ANALYZE ANY AS ASC BEGIN BY CARDINALITY CREATE CONTINUOUS DATABASE DATABASES DEFAULT DELETE DESC DESTINATIONS DIAGNOSTICS DISTINCT DROP DURATION END EVERY EXACT EXPLAIN FIELD FOR FROM FUTURE GRANT GRANTS GROUP GROUPS IN INF INSERT INTO KEY KEYS KILL LIMIT MEASUREMENT MEASUREMENTS NAME OFFSET ON ORDER PASSWORD PAST POLICY POLICIES PRIVILEGES QUERIES QUERY READ REPLICATION RESAMPLE RETENTION REVOKE SELECT SERIES SET SHOW SHARD SHARDS SLIMIT SOFFSET STATS SUBSCRIPTION SUBSCRIPTIONS TAG TO USER USERS VALUES VERBOSE WHERE WITH WRITE AND OR TRUE FALSE`)

var kwSet = func() map[string]bool {
	m := map[string]bool{}
	for _, k := range Keywords {
		m[strings.ToLower(k)] = true
	}
	return m
}()

// IsKeyword reports whether s is a reserved word in any letter case.
func IsKeyword(s string) bool { return kwSet[strings.ToLower(s)] }
