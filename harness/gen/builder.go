// Package gen is the AST-first workload generator: it builds the intended
// influxql AST and, in lock-step, a token list that denotes it. A separate
// renderer turns the token list into text with spelling and layout choices.
// Nothing here calls the parser or String().
package gen

import (
	"strings"
	"unicode/utf8"

	"verifharness/mon"
)

// GapKind says what may stand between a token and its predecessor.
type GapKind int

const (
	GapOpt  GapKind = iota // zero or more whitespace
	GapReq                 // at least one whitespace character
	GapNone                // must be adjacent
	// GapRare: written adjacent by everybody, but whitespace is legal (between
	// the dot of a segmented name and the identifier segment after it).
	GapRare
)

// Class is a coarse token class (used for gap decisions and C16 keys).
type Class int

const (
	CKw Class = iota
	CIdent
	CQIdent
	CStr
	CNum
	CDur
	CPunct
	COp
	CRegex
	CParam
	CWild
)

// Tok is one lexeme with the gap before it.
type Tok struct {
	Text  string
	Gap   GapKind
	Class Class
	Name  string // canonical name, e.g. "SELECT", ",", "ident", "regex"
	Val   string // semantic value for identifiers (name), strings (value), regexes (source)
}

// Builder accumulates tokens.
type Builder struct {
	Toks []Tok
	Rg   *mon.Rng
	// KwStyle: 0 upper, 1 lower, 2 random per letter, 3 capitalised
	KwStyle int
	// QuoteAll forces every identifier to be double-quoted.
	QuoteAll bool
	// Plain disables spelling variation (canonical minimal spellings).
	Plain bool
}

func isWordy(r rune) bool {
	return (r >= 'a' && r <= 'z') || (r >= 'A' && r <= 'Z') || (r >= '0' && r <= '9') || r == '_' || r == 'µ' || r > 127
}

// AutoGap is the exported form of the fusion table.
func AutoGap(prev, next string) GapKind { return autoGap(prev, next) }

// autoGap decides whether two adjacent spellings could fuse into one token.
func autoGap(prev, next string) GapKind {
	if prev == "" || next == "" {
		return GapOpt
	}
	p, _ := utf8.DecodeLastRuneInString(prev)
	n, _ := utf8.DecodeRuneInString(next)
	switch {
	case isWordy(p) && isWordy(n):
		return GapReq
	case isWordy(p) && (n == '"' || n == '.' || n == '$'):
		return GapReq
	case p == '.' && n >= '0' && n <= '9':
		return GapReq
	case p == '-' && n == '-', p == '/' && n == '*', p == '=' && n == '~', p == '!' && (n == '=' || n == '~'),
		p == '<' && (n == '>' || n == '='), p == '>' && n == '=', p == ':' && n == ':', p == '/' && n == '/':
		return GapReq
	}
	return GapOpt
}

func (b *Builder) push(text string, cls Class, name string, force GapKind, forced bool) {
	g := GapOpt
	if len(b.Toks) > 0 {
		g = autoGap(b.Toks[len(b.Toks)-1].Text, text)
	}
	if forced {
		if force == GapNone || force == GapReq {
			g = force
		}
	}
	b.Toks = append(b.Toks, Tok{Text: text, Gap: g, Class: cls, Name: name})
}

func (b *Builder) kwSpell(w string) string {
	if b.Plain {
		return w
	}
	switch b.KwStyle {
	case 1:
		return strings.ToLower(w)
	case 2:
		bs := []byte(strings.ToLower(w))
		for i := range bs {
			if b.Rg.Bool() && bs[i] >= 'a' && bs[i] <= 'z' {
				bs[i] -= 32
			}
		}
		return string(bs)
	case 3:
		return w[:1] + strings.ToLower(w[1:])
	}
	return w
}

// Kw emits one or more keywords (space-separated in the argument).
func (b *Builder) Kw(words string) {
	for _, w := range strings.Fields(words) {
		b.push(b.kwSpell(w), CKw, w, 0, false)
	}
}

// P emits punctuation / operator text.
func (b *Builder) P(text string) { b.push(text, CPunct, text, 0, false) }

// PNone emits punctuation that must touch its predecessor.
func (b *Builder) PNone(text string) { b.push(text, CPunct, text, GapNone, true) }

// Op emits an operator (word operators use keyword spelling).
func (b *Builder) Op(text string) {
	if text == "AND" || text == "OR" {
		b.push(b.kwSpell(text), COp, text, 0, false)
		return
	}
	b.push(text, COp, text, 0, false)
}

// Raw emits text of the given class with an automatic gap.
func (b *Builder) Raw(text string, cls Class, name string) { b.push(text, cls, name, 0, false) }

// RawGap emits text with a forced gap kind.
func (b *Builder) RawGap(text string, cls Class, name string, g GapKind) {
	b.push(text, cls, name, g, true)
}

// ForceGap overrides the gap of the most recent token.
func (b *Builder) ForceGap(g GapKind) { b.Toks[len(b.Toks)-1].Gap = g }

// bareOK reports whether name can be written without quotes.
func bareOK(name string) bool {
	if name == "" || IsKeyword(name) {
		return false
	}
	for i, r := range name {
		ok := (r >= 'a' && r <= 'z') || (r >= 'A' && r <= 'Z') || r == '_' || (i > 0 && r >= '0' && r <= '9')
		if !ok {
			return false
		}
	}
	return true
}

// QuoteIdentSpell writes name as a double-quoted identifier using the
// harness's own escaping (not influxql.QuoteIdent).
func (b *Builder) QuoteIdentSpell(name string) string {
	var sb strings.Builder
	sb.WriteByte('"')
	for _, r := range name {
		switch r {
		case '"':
			sb.WriteString(`\"`)
		case '\\':
			sb.WriteString(`\\`)
		case '\n':
			sb.WriteString(`\n`)
		case '\'':
			if !b.Plain && b.Rg.P(0.3) {
				sb.WriteString(`\'`)
			} else {
				sb.WriteRune(r)
			}
		default:
			sb.WriteRune(r)
		}
	}
	sb.WriteByte('"')
	return sb.String()
}

// IdentSpell picks bare or quoted spelling.
func (b *Builder) IdentSpell(name string) string {
	if bareOK(name) && !b.QuoteAll && (b.Plain || b.Rg.P(0.7)) {
		return name
	}
	return b.QuoteIdentSpell(name)
}

// Ident emits an identifier.
func (b *Builder) Ident(name string) {
	s := b.IdentSpell(name)
	cls := CIdent
	if s[0] == '"' {
		cls = CQIdent
	}
	b.push(s, cls, "ident", 0, false)
	b.Toks[len(b.Toks)-1].Val = name
}

// IdentAfterDot emits an identifier segment behind a dot: adjacent in the
// usual spelling, but the grammar allows whitespace there.
func (b *Builder) IdentAfterDot(name string) {
	b.Ident(name)
	b.ForceGap(GapRare)
}

// IdentNone emits an identifier that must touch its predecessor.
func (b *Builder) IdentNone(name string) {
	b.Ident(name)
	b.ForceGap(GapNone)
}

// StrSpell writes a single-quoted string with the harness's own escaping.
func (b *Builder) StrSpell(v string) string {
	var sb strings.Builder
	sb.WriteByte('\'')
	for _, r := range v {
		switch r {
		case '\'':
			sb.WriteString(`\'`)
		case '\\':
			sb.WriteString(`\\`)
		case '\n':
			sb.WriteString(`\n`)
		case '"':
			if !b.Plain && b.Rg.P(0.3) {
				sb.WriteString(`\"`)
			} else {
				sb.WriteRune(r)
			}
		default:
			sb.WriteRune(r)
		}
	}
	sb.WriteByte('\'')
	return sb.String()
}

// Str emits a string literal.
func (b *Builder) Str(v string) {
	b.push(b.StrSpell(v), CStr, "string", 0, false)
	b.Toks[len(b.Toks)-1].Val = v
}

// RegexSpell writes /src/ with slashes escaped.
func RegexSpell(src string) string { return "/" + strings.ReplaceAll(src, "/", `\/`) + "/" }

// Regex emits a regex literal.
func (b *Builder) Regex(src string) {
	b.push(RegexSpell(src), CRegex, "regex", 0, false)
	b.Toks[len(b.Toks)-1].Val = src
}

// Gap describes one inter-token gap of a rendering.
type Gap struct {
	Index      int // token index the gap precedes
	Start, End int // byte offsets of the gap text in the rendering
}

// Layout controls whitespace choices of Render.
type Layout struct {
	Rg *mon.Rng
	// Minimal: required gaps are one space, optional gaps are empty.
	Minimal bool
	// Spaced: every optional and required gap is exactly one space.
	Spaced bool
	// Loose: with Spaced, the rarely used gaps (GapRare) are one space too.
	Loose bool
}

var wsKinds = []string{" ", "\t", "\n", "\r\n", "\r", "  ", " \n ", "\t \r\n"}

// Render produces the text and the list of gaps (also empty ones).
func Render(toks []Tok, l Layout) (string, []Gap) {
	var sb strings.Builder
	var gaps []Gap
	for i, t := range toks {
		var g string
		switch {
		case i == 0:
			if !l.Minimal && !l.Spaced && l.Rg != nil && l.Rg.P(0.1) {
				g = wsKinds[l.Rg.Intn(len(wsKinds))]
			}
		case t.Gap == GapNone:
			g = ""
		case t.Gap == GapRare:
			if l.Loose || (!l.Minimal && !l.Spaced && l.Rg != nil && l.Rg.P(0.12)) {
				g = " "
				if l.Rg != nil && l.Rg.P(0.3) {
					g = wsKinds[l.Rg.Intn(len(wsKinds))]
				}
			}
		case l.Spaced:
			g = " "
		case l.Minimal:
			if t.Gap == GapReq {
				g = " "
			}
		case t.Gap == GapReq:
			g = pickWS(l.Rg, true)
		default:
			g = pickWS(l.Rg, false)
		}
		st := sb.Len()
		sb.WriteString(g)
		gaps = append(gaps, Gap{Index: i, Start: st, End: sb.Len()})
		sb.WriteString(t.Text)
	}
	return sb.String(), gaps
}

// layoutComments are written (rarely) into the gaps of the random layout;
// each is flanked by whitespace so that it can stand in any gap.
var layoutComments = []string{" /* c */ ", " -- c\n", " /**/ ", " /***/ ", " /****/ ", " /*****/ ", " /* x ***/ ", " /*** x ***/ ", " /* x ******/ ", " /* x *********/ ", " /* a\n b */ ", " --1st\n", " --2024-01-01 x\n", " --0\r\n", " -- /* c\n", " /* -- */ "}

func pickWS(rg *mon.Rng, required bool) string {
	if rg == nil {
		if required {
			return " "
		}
		return ""
	}
	if rg.P(0.02) {
		return layoutComments[rg.Intn(len(layoutComments))]
	}
	if !required && rg.P(0.35) {
		return ""
	}
	if rg.P(0.7) {
		return " "
	}
	return wsKinds[rg.Intn(len(wsKinds))]
}
