// Package astx provides a canonical structural dump of influxql ASTs, used as
// the notion of "structurally identical" by all checks. It looks only at
// exported fields; nil and empty slices are the same; regexes compare by
// source, locations by name, floats by bits (all NaNs equal), times by instant.
package astx

import (
	"fmt"
	"math"
	"reflect"
	"regexp"
	"sort"
	"strings"
	"time"
)

var (
	regexpT = reflect.TypeOf((*regexp.Regexp)(nil))
	locT    = reflect.TypeOf((*time.Location)(nil))
	timeT   = reflect.TypeOf(time.Time{})
)

// Dump returns the canonical multi-line dump of v ("path = value" per line).
func Dump(v interface{}) string {
	var b strings.Builder
	dump(&b, "$", reflect.ValueOf(v), 0)
	return b.String()
}

func dump(b *strings.Builder, path string, v reflect.Value, depth int) {
	if depth > 100000 {
		fmt.Fprintf(b, "%s = <too deep>\n", path)
		return
	}
	if !v.IsValid() {
		fmt.Fprintf(b, "%s = nil\n", path)
		return
	}
	switch v.Kind() {
	case reflect.Interface:
		if v.IsNil() {
			fmt.Fprintf(b, "%s = nil\n", path)
			return
		}
		dump(b, path, v.Elem(), depth+1)
	case reflect.Ptr:
		if v.IsNil() {
			fmt.Fprintf(b, "%s = nil\n", path)
			return
		}
		switch v.Type() {
		case regexpT:
			fmt.Fprintf(b, "%s = regexp(%q)\n", path, v.Interface().(*regexp.Regexp).String())
			return
		case locT:
			fmt.Fprintf(b, "%s = location(%q)\n", path, v.Interface().(*time.Location).String())
			return
		}
		e := v.Elem()
		if e.Kind() == reflect.Struct {
			dump(b, path+"<*"+e.Type().Name()+">", e, depth+1)
		} else {
			dump(b, path+"<*>", e, depth+1)
		}
	case reflect.Struct:
		if v.Type() == timeT {
			t := v.Interface().(time.Time)
			if t.IsZero() {
				fmt.Fprintf(b, "%s = time(zero)\n", path)
			} else {
				fmt.Fprintf(b, "%s = time(%s)\n", path, t.UTC().Format(time.RFC3339Nano))
			}
			return
		}
		t := v.Type()
		n := 0
		for i := 0; i < t.NumField(); i++ {
			f := t.Field(i)
			if f.PkgPath != "" { // unexported
				continue
			}
			n++
			dump(b, path+"."+f.Name, v.Field(i), depth+1)
		}
		if n == 0 {
			fmt.Fprintf(b, "%s = {}\n", path)
		}
	case reflect.Slice, reflect.Array:
		if v.Len() == 0 {
			fmt.Fprintf(b, "%s = []\n", path)
			return
		}
		if v.Type().Elem().Kind() == reflect.Uint8 && v.Kind() == reflect.Slice {
			fmt.Fprintf(b, "%s = bytes(%q)\n", path, v.Bytes())
			return
		}
		fmt.Fprintf(b, "%s.len = %d\n", path, v.Len())
		for i := 0; i < v.Len(); i++ {
			dump(b, fmt.Sprintf("%s[%d]", path, i), v.Index(i), depth+1)
		}
	case reflect.Map:
		if v.Len() == 0 {
			fmt.Fprintf(b, "%s = map[]\n", path)
			return
		}
		keys := v.MapKeys()
		sort.Slice(keys, func(i, j int) bool { return fmt.Sprint(keys[i].Interface()) < fmt.Sprint(keys[j].Interface()) })
		for _, k := range keys {
			dump(b, fmt.Sprintf("%s[%v]", path, k.Interface()), v.MapIndex(k), depth+1)
		}
	case reflect.Float64, reflect.Float32:
		f := v.Float()
		if math.IsNaN(f) {
			fmt.Fprintf(b, "%s = float(NaN)\n", path)
		} else {
			fmt.Fprintf(b, "%s = float(%x)\n", path, math.Float64bits(f))
		}
	case reflect.String:
		fmt.Fprintf(b, "%s = %s(%q)\n", path, v.Type().Name(), v.String())
	case reflect.Bool:
		fmt.Fprintf(b, "%s = %v\n", path, v.Bool())
	case reflect.Int, reflect.Int8, reflect.Int16, reflect.Int32, reflect.Int64:
		fmt.Fprintf(b, "%s = %s(%d)\n", path, v.Type().Name(), v.Int())
	case reflect.Uint, reflect.Uint8, reflect.Uint16, reflect.Uint32, reflect.Uint64:
		fmt.Fprintf(b, "%s = %s(%d)\n", path, v.Type().Name(), v.Uint())
	case reflect.Func:
		fmt.Fprintf(b, "%s = func\n", path)
	default:
		fmt.Fprintf(b, "%s = %v\n", path, v.Interface())
	}
}

// Equal reports whether two values have the same canonical dump.
func Equal(a, b interface{}) bool { return Dump(a) == Dump(b) }

// FirstDiff returns the first differing line pair of two dumps ("" when equal).
func FirstDiff(a, b string) string {
	if a == b {
		return ""
	}
	la, lb := strings.Split(a, "\n"), strings.Split(b, "\n")
	for i := 0; i < len(la) || i < len(lb); i++ {
		var x, y string
		if i < len(la) {
			x = la[i]
		}
		if i < len(lb) {
			y = lb[i]
		}
		if x != y {
			return fmt.Sprintf("want %s | got %s", x, y)
		}
	}
	return "dumps differ"
}

// DiffPath returns only the path part of the first differing line of the
// `want` dump (empty when equal); classifiers key on it.
func DiffPath(want, got string) string {
	d := FirstDiff(want, got)
	if d == "" {
		return ""
	}
	d = strings.TrimPrefix(d, "want ")
	if i := strings.Index(d, " = "); i >= 0 {
		if j := strings.Index(d, " | got "); j >= 0 && j < i {
			// want line is empty; use got line
			d = d[j+7:]
			if k := strings.Index(d, " = "); k >= 0 {
				return d[:k]
			}
			return d
		}
		return d[:i]
	}
	return d
}

// VisitPtrs calls fn for every non-nil pointer-to-struct reachable from v
// through exported fields (unlike influxql.Walk it needs no per-type case, so
// it also reaches the statement kinds Walk does not descend into).
func VisitPtrs(v interface{}, fn func(p interface{})) {
	visit(reflect.ValueOf(v), fn, 0)
}

func visit(v reflect.Value, fn func(p interface{}), depth int) {
	if !v.IsValid() || depth > 100000 {
		return
	}
	switch v.Kind() {
	case reflect.Interface:
		if !v.IsNil() {
			visit(v.Elem(), fn, depth+1)
		}
	case reflect.Ptr:
		if v.IsNil() || v.Type() == regexpT || v.Type() == locT {
			return
		}
		if v.Elem().Kind() == reflect.Struct {
			if v.CanInterface() {
				fn(v.Interface())
			}
		}
		visit(v.Elem(), fn, depth+1)
	case reflect.Struct:
		if v.Type() == timeT {
			return
		}
		t := v.Type()
		for i := 0; i < t.NumField(); i++ {
			if t.Field(i).PkgPath == "" {
				visit(v.Field(i), fn, depth+1)
			}
		}
	case reflect.Slice, reflect.Array:
		for i := 0; i < v.Len(); i++ {
			visit(v.Index(i), fn, depth+1)
		}
	case reflect.Map:
		for _, k := range v.MapKeys() {
			visit(v.MapIndex(k), fn, depth+1)
		}
	}
}
