package checks

import (
	"bytes"
	"encoding/json"
	"fmt"
	"math"
	"strconv"
	"strings"
	"time"
	"unicode/utf8"

	"github.com/influxdata/influxql"
	"verifharness/astx"
	"verifharness/gen"
	"verifharness/mon"
)

// C07 — bound parameters are substituted as single tokens, never re-lexed.
//
// Oracle: the statement template is a generated token list in which some
// name / literal / regex / duration / count tokens are replaced by $name. The
// result with bound values must equal (structurally) the parse of the same
// token list with the value written out by the harness's own quoting, or, when
// the value cannot be written as a literal, the intended AST with exactly that
// slot changed. Unbound, empty and unbindable parameters must give an error.

func init() { Registry["C07"] = checkC07 }

type c07slot struct {
	tok   int
	kind  string // ident string regex int float duration bool
	name  string // parameter name
	value interface{}
	// inline is the literal spelling of the value ("" + ok=false when it
	// cannot be written as a literal)
	inline   string
	inlineOK bool
	// orig / repl are canonical dump value texts of the original and the new
	// value (for the line-replacement oracle)
	orig, repl string
	same       bool // the bound value is the value the generator wrote
}

func slotKind(t gen.Tok) string {
	switch {
	case t.Name == "ident" && (t.Val != "" || t.Text == `""`):
		return "ident"
	case t.Name == "string":
		return "string"
	case t.Name == "regex":
		return "regex"
	case t.Name == "integer":
		return "int"
	case t.Name == "number":
		return "float"
	case t.Name == "duration":
		return "duration"
	case t.Name == "TRUE" || t.Name == "FALSE":
		return "bool"
	}
	return ""
}

var c07Strings = []string{"x'; DROP DATABASE y; --", `a"b`, "", "select", "$other", "line\nbreak", "nul\x00byte", "/* c */", `back\slash`, "é日本", "cr\rlf", "' OR '1'='1", "; SHOW USERS"}
var c07Idents = []string{"select", "from", "a.b", `q"t`, "with space", "time", "é", "1st", "$p", "x'y", "a b; DROP DATABASE z", "nl\nx", "Where"}
var c07Regex = []string{"a/b", "^x$", "(?i)z", "", `\d+`, "^/var/log/.*$", `a\/b`, `C:\\/tmp`, `\/\/`, `x\\`}

func finite(f float64) bool { return !math.IsNaN(f) && !math.IsInf(f, 0) }

// makeSlot chooses the value bound to one placeholder.
func makeSlot(rg *mon.Rng, ti int, t gen.Tok, kind string, hostile bool, b *gen.Builder) (c07slot, bool) {
	s := c07slot{tok: ti, kind: kind}
	switch kind {
	case "ident":
		v := t.Val
		if hostile {
			v = c07Idents[rg.Intn(len(c07Idents))]
		}
		s.value = map[string]interface{}{rg.Pick("identifier", "ident"): v}
		s.inline, s.inlineOK = b.QuoteIdentSpell(v), true
		s.orig, s.repl = fmt.Sprintf("string(%q)", t.Val), fmt.Sprintf("string(%q)", v)
		s.same = v == t.Val
	case "string":
		v := t.Val
		if hostile {
			v = c07Strings[rg.Intn(len(c07Strings))]
		}
		if rg.Bool() {
			s.value = v
		} else {
			s.value = map[string]interface{}{"string": v}
		}
		s.inline, s.inlineOK = b.StrSpell(v), utf8.ValidString(v) && !strings.ContainsAny(v, "\x00\r")
		s.orig, s.repl = fmt.Sprintf("string(%q)", t.Val), fmt.Sprintf("string(%q)", v)
		s.same = v == t.Val
	case "regex":
		v := t.Val
		if hostile {
			v = c07Regex[rg.Intn(len(c07Regex))]
		}
		s.value = map[string]interface{}{"regex": v}
		s.inline, s.inlineOK = gen.RegexSpell(v), !strings.Contains(v, "\n")
		s.orig, s.repl = fmt.Sprintf("regexp(%q)", t.Val), fmt.Sprintf("regexp(%q)", v)
		s.same = v == t.Val
	case "int":
		n, err := strconv.ParseInt(t.Text, 10, 64)
		if err != nil {
			return s, false
		}
		v := n
		if hostile {
			v = []int64{0, 1, -1, 42, math.MaxInt64, math.MinInt64, -5}[rg.Intn(7)]
		}
		switch rg.Intn(3) {
		case 0:
			s.value = v
		case 1:
			s.value = map[string]interface{}{rg.Pick("integer", "int"): v}
		default:
			s.value = json.Number(strconv.FormatInt(v, 10))
		}
		s.inline, s.inlineOK = strconv.FormatInt(v, 10), true
		s.same = v == n
		s.orig, s.repl = "", ""
	case "float":
		f, err := strconv.ParseFloat(t.Text, 64)
		if err != nil {
			return s, false
		}
		v := f
		if hostile {
			v = []float64{1.5, -2.25, 1e300, 1e-7, math.NaN(), math.Inf(1), math.Inf(-1), 0, 3,
				9223372036854775808, -9223372036854775808, 9223372036854774784, 18446744073709551616, 4611686018427387904, 9007199254740993, 2147483648, 4294967296,
				1e21, 1e20, 123456789012345678, 0.1, 1e-320, math.MaxFloat64, math.SmallestNonzeroFloat64, 16777217, 33554433.5}[rg.Intn(26)]
		}
		if rg.Bool() {
			s.value = v
		} else {
			s.value = map[string]interface{}{rg.Pick("float", "number"): v}
		}
		if finite(v) {
			in := strconv.FormatFloat(v, 'f', -1, 64)
			if !strings.Contains(in, ".") {
				in += ".0"
			}
			s.inline, s.inlineOK = in, true
		}
		s.same = v == f
	case "duration":
		v := t.Text
		if hostile {
			v = rg.Pick("10s", "1h30m", "0s", "7d", "100ms", "9223372036854775807ns")
		}
		s.value = map[string]interface{}{"duration": v}
		if !hostile && rg.P(0.3) {
			if d, err := influxql.ParseDuration(v); err == nil && influxql.FormatDuration(d) != "" {
				// the int64-nanoseconds form denotes the same duration
				s.value = map[string]interface{}{"duration": int64(d)}
			}
		}
		s.inline, s.inlineOK = v, true
		s.same = v == t.Text
	case "bool":
		v := t.Name == "TRUE"
		if hostile {
			v = rg.Bool()
		}
		s.value = v
		s.inline, s.inlineOK = map[bool]string{true: "true", false: "false"}[v], true
		s.same = v == (t.Name == "TRUE")
	}
	return s, true
}

var c07Unbindable = []interface{}{
	nil, int32(5), uint64(7), []interface{}{1}, []byte("x"), time.Second, struct{}{},
	map[string]interface{}{}, map[string]interface{}{"string": "a", "int": int64(1)}, map[string]interface{}{"unknown": "x"},
	map[string]interface{}{"identifier": 5.0}, map[string]interface{}{"regex": 1.0}, map[string]interface{}{"string": true}, map[string]interface{}{"float": "x"},
	map[string]interface{}{"integer": 2.5}, map[string]interface{}{"duration": 1.5}, json.Number("abc"), json.Number("1e400"), json.Number("9223372036854775808"), json.Number(""),
}

func renderSlots(toks []gen.Tok, slots []c07slot, inline bool, emptyTok int) string {
	ts := append([]gen.Tok(nil), toks...)
	for _, s := range slots {
		txt := s.inline
		if s.tok == emptyTok {
			txt = "$"
		} else if !inline {
			txt = "$" + s.name
			if strings.ContainsAny(s.name, " $") {
				txt = `$"` + s.name + `"`
			}
		}
		ts[s.tok].Text = txt
	}
	// recompute fusion-sensitive gaps around changed tokens
	for _, s := range slots {
		for _, i := range []int{s.tok, s.tok + 1} {
			if i > 0 && i < len(ts) && ts[i].Gap != gen.GapNone {
				if g := gen.AutoGap(ts[i-1].Text, ts[i].Text); g == gen.GapReq {
					ts[i].Gap = gen.GapReq
				}
			}
		}
	}
	text, _ := gen.Render(ts, gen.Layout{Spaced: true})
	return text
}

func parseWithParams(text string, params map[string]interface{}) (st influxql.Statement, err error, pan bool, pv interface{}, stk string) {
	return parseWithParams2(text, nil, params)
}

// parseWithParams3 binds params and then nil on the same parser.
func parseWithParams3(text string, params map[string]interface{}) (st influxql.Statement, err error, pan bool, pv interface{}, stk string) {
	pan, pv, stk = mon.Try(func() {
		p := influxql.NewParser(strings.NewReader(text))
		p.SetParams(params)
		p.SetParams(nil)
		var q *influxql.Query
		q, err = p.ParseQuery()
		if err == nil && q != nil && len(q.Statements) == 1 {
			st = q.Statements[0]
		}
	})
	return
}

// parseWithParams2 binds prior first (when non-nil) and then params on the
// same parser: the second call replaces the bindings, so the outcome must be
// that of a parser that only ever saw params.
func parseWithParams2(text string, prior, params map[string]interface{}) (st influxql.Statement, err error, pan bool, pv interface{}, stk string) {
	pan, pv, stk = mon.Try(func() {
		p := influxql.NewParser(strings.NewReader(text))
		if prior != nil {
			p.SetParams(prior)
		}
		p.SetParams(params)
		var q *influxql.Query
		q, err = p.ParseQuery()
		if err == nil {
			if q == nil || len(q.Statements) != 1 {
				err = fmt.Errorf("harness: expected one statement")
			} else {
				st = q.Statements[0]
			}
		}
	})
	return
}

func c07One(c *Ctx, idx int, local map[string]int64) {
	r := c.R
	rg := mon.NewRng(c.Seed, "c07.choice", idx)
	gc := genCase(c.Seed, "c07.base", idx, -1, -1, gen.Opts{MaxDepth: 2, Hostile: idx%5 == 0}, "spaced")
	toks := gc.G.B.Toks
	var eligible []int
	for i, t := range toks {
		if slotKind(t) != "" {
			eligible = append(eligible, i)
		}
	}
	if len(eligible) == 0 {
		return
	}
	nslots := 1
	if rg.P(0.3) && len(eligible) > 1 {
		nslots = rg.Range(2, minInt(3, len(eligible)))
	}
	rg.Shuffle(len(eligible), func(i, j int) { eligible[i], eligible[j] = eligible[j], eligible[i] })
	hostile := rg.P(0.5)
	var slots []c07slot
	params := map[string]interface{}{}
	for k := 0; k < nslots; k++ {
		ti := eligible[k]
		s, ok := makeSlot(rg, ti, toks[ti], slotKind(toks[ti]), hostile, gc.G.B)
		if !ok {
			continue
		}
		s.name = fmt.Sprintf("p%d", k)
		if rg.P(0.15) {
			s.name = fmt.Sprintf("p q%d", k)
		} else if rg.P(0.1) {
			// a name that itself begins with the sigil (only the quoted form can
			// spell it); the name without it is bound too, to something else
			s.name = fmt.Sprintf("$p%d", k)
			params[fmt.Sprintf("p%d", k)] = "decoy under the stripped name"
			params[fmt.Sprintf("$$p%d", k)] = int64(-77)
			local["sigil-in-name"]++
		}
		params[s.name] = s.value
		slots = append(slots, s)
	}
	if len(slots) == 0 {
		return
	}
	tmpl := renderSlots(toks, slots, false, -1)
	det := func(why string) map[string]interface{} {
		return map[string]interface{}{"idx": idx, "input": tmpl, "params": fmt.Sprintf("%#v", params), "original": gc.Text, "why": why}
	}
	baseSt, baseErr, _, _, _ := parseQuery1(gc.Text)
	if baseErr != nil {
		local["base-not-accepted(skipped)"]++
		return
	}
	var decoy map[string]interface{}
	if idx%3 == 0 {
		// an earlier binding of the same and of other names, replaced before parsing
		decoy = map[string]interface{}{"zz": "decoy", "": "decoy"}
		for k := range params {
			decoy[k] = "decoy'; --"
		}
		local["rebinding.positive"]++
	}
	st, err, pan, pv, stk := parseWithParams2(tmpl, decoy, params)
	r.Eval(1)
	r.DistinctStr(tmpl + fmt.Sprintf("%#v", params))
	local["templates"]++
	for _, s := range slots {
		local["slot."+s.kind]++
	}
	if len(slots) > 1 {
		local["multi-placeholder"]++
	}
	if pan {
		d := det(fmt.Sprint(pv))
		d["stack"] = stk
		r.Violation("panic", d)
		return
	}
	if err == nil && idx%2 == 0 {
		c07Stream(c, idx, tmpl, params, st, local)
	}
	if err == nil && idx%2 == 1 {
		c07Scribble(c, idx, tmpl, params, st, local)
		if !strings.Contains(gc.Text, "$") { // (the renaming below is textual)
			c07Fed(c, idx, tmpl, params, st, local)
		}
	}
	allInline, allSame := true, true
	for _, s := range slots {
		allInline = allInline && s.inlineOK
		allSame = allSame && s.same
	}
	var inSt influxql.Statement
	var inErr error = fmt.Errorf("not expressible")
	inText := ""
	if allSame {
		inSt, inErr, inText = baseSt, nil, gc.Text
	} else if allInline {
		inText = renderSlots(toks, slots, true, -1)
		inSt, inErr, _, _, _ = parseQuery1(inText)
	}
	switch {
	case err != nil && inErr == nil:
		d := det(fmt.Sprintf("the same statement with the values written out as literals is accepted (%q) but the parameterised form fails: %v", trunc(inText, 300), err))
		r.Violation("bound-form-rejected", d)
		return
	case err == nil && inErr == nil:
		if a, b := dumpOf(inSt), dumpOf(st); a != b {
			r.Violation("differs-from-literal-form", det(fmt.Sprintf("literal form %q; %s", trunc(inText, 300), astx.FirstDiff(a, b))))
			return
		}
		local["equal-to-literal-form"]++
	case err == nil && inErr != nil:
		// the value cannot be written at this position: the structure must
		// still be the template's, with only the slot lines changed
		want := strings.Split(dumpOf(baseSt), "\n")
		got := strings.Split(dumpOf(st), "\n")
		if len(want) != len(got) {
			r.Violation("structure-changed-by-value", det(fmt.Sprintf("dump has %d lines, template's has %d", len(got), len(want))))
			return
		}
		diff := 0
		for i := range want {
			if want[i] != got[i] {
				diff++
				wi := strings.Index(want[i], " = ")
				if wi < 0 || !strings.HasPrefix(got[i], want[i][:wi+3]) {
					r.Violation("structure-changed-by-value", det("want "+want[i]+" | got "+got[i]))
					return
				}
			}
		}
		if diff > len(slots) {
			r.Violation("structure-changed-by-value", det(fmt.Sprintf("%d value slots differ from the template but only %d placeholders were bound", diff, len(slots))))
			return
		}
		local["structure-kept(inexpressible-value)"]++
	default:
		local["both-rejected"]++
	}
	// must-error variants on the same template
	bad := map[string]interface{}{}
	for k, v := range params {
		bad[k] = v
	}
	victim := slots[rg.Intn(len(slots))]
	variant := rg.Intn(3)
	tmpl2 := tmpl
	switch variant {
	case 0:
		delete(bad, victim.name)
	case 1:
		bad[victim.name] = c07Unbindable[rg.Intn(len(c07Unbindable))]
	default:
		// empty placeholder (a parameter named "" must not make it valid)
		tmpl2 = renderSlots(toks, slots, false, victim.tok)
		if rg.Bool() {
			bad[""] = victim.value
		}
	}
	// half of the time on a parser that was first given the complete, valid
	// bindings: re-binding replaces them, nothing of the earlier set survives
	var prior map[string]interface{}
	if rg.Bool() {
		prior = params
		local["must-error.after-rebinding"]++
	}
	st2, err2, pan2, pv2, stk2 := parseWithParams2(tmpl2, prior, bad)
	r.Eval(1)
	if pan2 {
		r.Violation("panic", map[string]interface{}{"idx": idx, "input": tmpl2, "params": fmt.Sprintf("%#v", bad), "why": fmt.Sprint(pv2), "stack": stk2})
		return
	}
	if err2 != nil && variant != 2 {
		// the other entry point: a statement whose placeholder cannot be
		// resolved is not a statement, whatever follows it
		var st5 influxql.Statement
		var err5 error
		if p5, pv5, stk5 := mon.Try(func() {
			p := influxql.NewParser(strings.NewReader(tmpl2))
			p.SetParams(bad)
			st5, err5 = p.ParseStatement()
		}); p5 {
			r.Violation("panic", map[string]interface{}{"idx": idx, "input": tmpl2, "params": fmt.Sprintf("%#v", bad), "why": fmt.Sprint(pv5), "stack": stk5})
			return
		}
		r.Eval(1)
		if err5 == nil {
			r.Violation("unbound-or-unbindable-accepted", map[string]interface{}{"idx": idx, "input": tmpl2, "params": fmt.Sprintf("%#v", bad), "why": fmt.Sprintf("variant %d is rejected by ParseQuery (%v) but Parser.ParseStatement accepts it as %s", variant, err2, trunc(st5.String(), 200))})
			return
		}
		local["must-error.ParseStatement"]++
	}
	if err2 != nil {
		// whatever text the failure carries is not a parameter name: binding
		// it changes nothing (the failed placeholder is not looked up again
		// under another name)
		more := map[string]interface{}{}
		for k, v := range bad {
			more[k] = v
		}
		cands := []string{err2.Error()}
		if pe, ok := err2.(*influxql.ParseError); ok {
			cands = append(cands, pe.Found, pe.Message, strings.TrimPrefix(pe.Found, "$"))
		}
		if variant == 0 {
			// the sigil is not part of the name
			cands = append(cands, "$"+victim.name, `$"`+victim.name+`"`, " "+victim.name, strings.ToUpper(victim.name))
		}
		for _, cnd := range cands {
			if _, taken := more[cnd]; !taken && cnd != "" && cnd != victim.name {
				more[cnd] = victim.value
			}
		}
		st3, err3, pan3, pv3, stk3 := parseWithParams2(tmpl2, nil, more)
		r.Eval(1)
		if pan3 {
			r.Violation("panic", map[string]interface{}{"idx": idx, "input": tmpl2, "params": fmt.Sprintf("%#v", more), "why": fmt.Sprint(pv3), "stack": stk3})
			return
		}
		if err3 == nil {
			r.Violation("unbound-or-unbindable-accepted", map[string]interface{}{"idx": idx, "input": tmpl2, "params": fmt.Sprintf("%#v", more), "why": fmt.Sprintf("variant %d fails with %q, but is accepted as %s once the map also binds a key spelled like the failure text or like the name with its sigil", variant, err2.Error(), trunc(st3.String(), 200))})
			return
		}
		local["must-error.with-look-alike-keys"]++
	}
	if variant == 0 && prior == nil && rg.Bool() {
		// bindings replaced by no bindings at all
		if st4, err4, pan4, _, _ := parseWithParams3(tmpl, params); !pan4 && err4 == nil {
			r.Violation("unbound-or-unbindable-accepted", map[string]interface{}{"idx": idx, "input": tmpl, "params": "SetParams(valid map) then SetParams(nil)", "why": "after SetParams(nil) the placeholders are unbound, but the statement was accepted as " + trunc(st4.String(), 200)})
			return
		}
		local["must-error.after-SetParams-nil"]++
	}
	if err2 == nil {
		r.Violation("unbound-or-unbindable-accepted", map[string]interface{}{"idx": idx, "input": tmpl2, "params": fmt.Sprintf("%#v", bad), "rebinding": prior != nil, "why": fmt.Sprintf("variant %d (0 unbound, 1 unbindable value, 2 empty $; SetParams called twice: %v) was accepted as %s", variant, prior != nil, trunc(st2.String(), 200))})
		return
	}
	local[fmt.Sprintf("must-error.%d", variant)]++
}

// c07Stream: one parser reads the template three times from one text, and
// the bindings are replaced between the statements - first the given values,
// then perturbed values under the same names, then a map that binds none of
// them. Each statement is parsed with the bindings in force when it is read.
func c07Stream(c *Ctx, idx int, tmpl string, params map[string]interface{}, want influxql.Statement, local map[string]int64) {
	r := c.R
	other := map[string]interface{}{}
	for k, v := range params {
		switch x := v.(type) {
		case string:
			other[k] = x + "_2"
		case float64:
			other[k] = x + 1
		case bool:
			other[k] = !x
		default:
			other[k] = v
		}
	}
	wantOther, errOther, panOther, _, _ := parseWithParams(tmpl, other)
	if panOther {
		return
	}
	text := tmpl + " ; " + tmpl + " ; " + tmpl
	det := func(why string) map[string]interface{} {
		return map[string]interface{}{"idx": idx, "input": text, "params": fmt.Sprintf("%#v then %#v then none of the names", params, other), "why": why}
	}
	var s1, s2, s3 influxql.Statement
	var e1, e2, e3 error
	sep1, sep2 := false, false
	if p, pv, stk := mon.Try(func() {
		ps := influxql.NewParser(strings.NewReader(text))
		ps.SetParams(params)
		if s1, e1 = ps.ParseStatement(); e1 != nil {
			return
		}
		if tok, _, _ := ps.ScanIgnoreWhitespace(); tok != influxql.SEMICOLON {
			return
		}
		sep1 = true
		ps.SetParams(other)
		if s2, e2 = ps.ParseStatement(); e2 != nil {
			return
		}
		if tok, _, _ := ps.ScanIgnoreWhitespace(); tok != influxql.SEMICOLON {
			return
		}
		sep2 = true
		ps.SetParams(map[string]interface{}{"zz": int64(1)})
		s3, e3 = ps.ParseStatement()
	}); p {
		d := det(fmt.Sprint(pv))
		d["stack"] = stk
		r.Violation("panic", d)
		return
	}
	r.Eval(1)
	if e1 != nil || !sep1 {
		local["stream.first-statement-not-delimited(skipped)"]++
		return
	}
	if dumpOf(s1) != dumpOf(want) {
		r.Violation("placeholder-value-differs", det("the first statement of the stream differs from the same template parsed alone: "+astx.FirstDiff(dumpOf(want), dumpOf(s1))))
		return
	}
	if errOther != nil {
		if e2 == nil {
			r.Violation("unbound-or-unbindable-accepted", det("alone, the template fails under the second bindings ("+errOther.Error()+"), in the stream it is accepted as "+trunc(s2.String(), 200)))
			return
		}
		local["stream.second-fails-as-alone"]++
		return
	}
	if e2 != nil {
		r.Violation("template-rejected", det("the second statement is parsed under new bindings that the template accepts alone, but fails here: "+e2.Error()))
		return
	}
	if dumpOf(s2) != dumpOf(wantOther) {
		r.Violation("placeholder-value-differs", det("after SetParams the second statement must carry the new values: "+astx.FirstDiff(dumpOf(wantOther), dumpOf(s2))))
		return
	}
	local["stream.rebound-between-statements"]++
	if !sep2 {
		return
	}
	if e3 == nil {
		r.Violation("unbound-or-unbindable-accepted", det("the third statement is read after SetParams dropped every name, but was accepted as "+trunc(s3.String(), 200)))
		return
	}
	local["stream.unbound-after-rebind-fails"]++
}

// c07Scribble: the caller's map belongs to the caller. After SetParams it
// overwrites and deletes what the map (and the objects inside it) holds; the
// statement is parsed with the values that were bound.
func c07Scribble(c *Ctx, idx int, tmpl string, params map[string]interface{}, want influxql.Statement, local map[string]int64) {
	r := c.R
	cp := map[string]interface{}{}
	for k, v := range params {
		if m, ok := v.(map[string]interface{}); ok {
			m2 := map[string]interface{}{}
			for kk, vv := range m {
				m2[kk] = vv
			}
			cp[k] = m2
		} else {
			cp[k] = v
		}
	}
	var st influxql.Statement
	var err error
	if p, pv, stk := mon.Try(func() {
		ps := influxql.NewParser(strings.NewReader(tmpl))
		ps.SetParams(cp)
		for k, v := range cp {
			if m, ok := v.(map[string]interface{}); ok {
				for kk := range m {
					m[kk] = "scribbled'; DROP DATABASE x --"
				}
				m["regex"] = "("
			}
			cp[k] = "scribbled"
			if len(k)%2 == 0 {
				delete(cp, k)
			}
		}
		var q *influxql.Query
		q, err = ps.ParseQuery()
		if err == nil && len(q.Statements) == 1 {
			st = q.Statements[0]
		}
	}); p {
		r.Violation("panic", map[string]interface{}{"idx": idx, "input": tmpl, "params": fmt.Sprintf("%#v", params), "why": fmt.Sprint(pv), "stack": stk})
		return
	}
	r.Eval(1)
	if err != nil || st == nil || dumpOf(st) != dumpOf(want) {
		why := fmt.Sprint(err)
		if err == nil && st != nil {
			why = astx.FirstDiff(dumpOf(want), dumpOf(st))
		}
		r.Violation("placeholder-value-differs", map[string]interface{}{"idx": idx, "input": tmpl, "params": fmt.Sprintf("%#v", params), "why": "the caller edited its own map (and the objects in it) after SetParams; the statement must still carry the values that were bound: " + why})
		return
	}
	local["caller-edits-its-map-after-SetParams"]++
}

// c07Fed: the parser reads from a buffer that is filled statement by
// statement (a console): the template, an end of input, then the template
// again under other placeholder names bound to other values.
func c07Fed(c *Ctx, idx int, tmpl string, params map[string]interface{}, want influxql.Statement, local map[string]int64) {
	r := c.R
	all := map[string]interface{}{}
	second := map[string]interface{}{}
	for k, v := range params {
		if !strings.HasPrefix(k, "p") {
			return // (names with a sigil of their own, decoys)
		}
		all[k] = v
		nv := v
		switch x := v.(type) {
		case string:
			nv = x + "_fed"
		case float64:
			nv = x + 2
		case bool:
			nv = !x
		}
		all["r"+k[1:]] = nv
		second["p"+k[1:]] = nv
	}
	tmpl2 := strings.ReplaceAll(strings.ReplaceAll(tmpl, "$p", "$r"), "$\"p", "$\"r")
	if strings.Count(tmpl2, "$r") != strings.Count(tmpl, "$p")+strings.Count(tmpl, "$\"p")-strings.Count(tmpl2, "$\"r") {
		return
	}
	want2, err2, pan2, _, _ := parseWithParams(tmpl, second)
	if pan2 || err2 != nil {
		return
	}
	buf := &bytes.Buffer{}
	buf.WriteString(tmpl)
	var s1, s2 influxql.Statement
	var e1, e2 error
	sawEOF := false
	if p, pv, stk := mon.Try(func() {
		ps := influxql.NewParser(buf)
		ps.SetParams(all)
		if s1, e1 = ps.ParseStatement(); e1 != nil {
			return
		}
		for k := 0; k < 3; k++ {
			if tok, _, _ := ps.ScanIgnoreWhitespace(); tok == influxql.EOF {
				sawEOF = true
				break
			}
		}
		if !sawEOF {
			return
		}
		buf.WriteString(" " + tmpl2)
		s2, e2 = ps.ParseStatement()
	}); p {
		r.Violation("panic", map[string]interface{}{"idx": idx, "input": tmpl + " <end of input, then> " + tmpl2, "params": fmt.Sprintf("%#v", all), "why": fmt.Sprint(pv), "stack": stk})
		return
	}
	r.Eval(1)
	if e1 != nil || !sawEOF || dumpOf(s1) != dumpOf(want) {
		local["fed.first-statement-not-isolated(skipped)"]++
		return
	}
	if e2 != nil {
		local["fed.nothing-read-after-end-of-input"]++
		return
	}
	if dumpOf(s2) != dumpOf(want2) {
		r.Violation("placeholder-value-differs", map[string]interface{}{"idx": idx, "input": tmpl + " <end of input, then> " + tmpl2, "params": fmt.Sprintf("%#v", all), "why": "the statement read after the end of input carries other values than its placeholders are bound to: " + astx.FirstDiff(dumpOf(want2), dumpOf(s2))})
		return
	}
	local["fed.second-statement-after-end-of-input"]++
}

// c07Lines: expressions read one per line by one parser, the parameters
// re-bound before each line (the previous ParseExpr has already looked at the
// next line's first token).
func c07Lines(c *Ctx) {
	r := c.R
	vals := []interface{}{"web' OR '1' = '1", int64(10), 2.5, true, "plain", int64(-3), map[string]interface{}{"identifier": "col a"}, map[string]interface{}{"duration": "90m"}}
	text := "$v = host\n$v = host\n$v = host\n$v = host\n$v = host\n$v = host\n$v = host\n$v = host\n$v = host"
	for start := 0; start < len(vals); start++ {
		ps := influxql.NewParser(strings.NewReader(text))
		for k := 0; k < 9; k++ {
			v := vals[(start+k)%len(vals)]
			var got, want influxql.Expr
			var eg, ew error
			if p, pv, stk := mon.Try(func() {
				ps.SetParams(map[string]interface{}{"v": v})
				got, eg = ps.ParseExpr()
				pw := influxql.NewParser(strings.NewReader("$v = host"))
				pw.SetParams(map[string]interface{}{"v": v})
				want, ew = pw.ParseExpr()
			}); p {
				r.Violation("panic", map[string]interface{}{"idx": -1, "input": text, "params": fmt.Sprintf("%#v", v), "why": fmt.Sprint(pv), "stack": stk})
				return
			}
			r.Eval(1)
			if (eg == nil) != (ew == nil) || (eg == nil && dumpOf(got) != dumpOf(want)) {
				r.Violation("placeholder-value-differs", map[string]interface{}{"idx": -1, "input": text, "params": fmt.Sprintf("line %d, v re-bound to %#v just before it", k+1, v), "why": fmt.Sprintf("the line parses to %v (err %v); alone under the same binding it parses to %v (err %v)", got, eg, want, ew)})
				return
			}
			r.Count("lines.rebound-before-each-line", 1)
			if eg != nil {
				break
			}
		}
	}
}

func checkC07(c *Ctx) (string, bool, []string) {
	r := c.R
	rule := "templates = generated statements of all 44 kinds whose name / string / regex / integer / float / duration / boolean tokens (1-3 per template, any position the grammar has) are replaced by $name or $\"quoted name\"; parameter maps bind the original value (all Go / JSON kinds: plain, typed object, json.Number, int64 duration) or a hostile value of the same kind (quotes, semicolons, comment markers, keywords, NUL, CR, NaN, Inf, int64 extremes); each compared with the literal-written form, or with the template's structure when the value cannot be written; plus unbound / unbindable / empty-placeholder variants that must fail, half of them on a parser whose bindings were first set to the valid map and then replaced (SetParams twice, also with nil); a failing binding must keep failing when the map also binds keys spelled like the failure text or like the name with its sigil. Non-trivial = every case; distinct by (template, params)."
	assume := []string{"the literal form is rendered by the harness's own quoting, not by QuoteIdent / QuoteString", "a value of a kind that does not match the slot kind is not judged except for the must-error variants"}
	if c.Replay != nil {
		c07One(c, replayInt(c, "idx"), map[string]int64{})
		return rule, false, assume
	}
	n := c.N(60000, 2000000)
	c07Lines(c)
	mon.Parallel(n, c.Workers, func(i int) {
		local := map[string]int64{}
		c07One(c, i, local)
		r.MergeCounts(local)
	})
	r.Sample(map[string]interface{}{"template": "SELECT mean($p0) FROM $p1 WHERE host = $p2 AND time > now() - $p3 LIMIT $p4", "params": "p0={identifier: value}, p1={identifier: cpu}, p2=\"x'; DROP DATABASE y; --\", p3={duration: 10s}, p4=int64(5)"})
	for _, k := range []string{"ident", "string", "regex", "int", "float", "duration", "bool"} {
		r.Require(r.Counter("slot."+k) > 0, "slot kind "+k+" never parameterised")
	}
	r.Require(r.Counter("equal-to-literal-form") > 0 && r.Counter("must-error.0") > 0 && r.Counter("must-error.1") > 0 && r.Counter("must-error.2") > 0 && r.Counter("multi-placeholder") > 0, "oracle branches not covered")
	return rule, false, assume
}
