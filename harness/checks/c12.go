package checks

import (
	"fmt"
	"sort"
	"strings"

	"github.com/influxdata/influxql"
	"verifharness/astx"
	"verifharness/mon"
)

// C12 — wildcard expansion yields exactly the schema's columns,
// deterministically.
//
// Oracle: an independent expansion model written from the property text
// (schema merge with the type precedence, subquery outputs, wildcard / regex
// in field, call-argument and dimension position, type filter per function,
// ordering), applied to a fresh parse of the same statement.

func init() { Registry["C12"] = checkC12 }

type c12schema struct {
	fields map[string]map[string]influxql.DataType
	tags   map[string][]string
}

func (s *c12schema) mapper() *testMapper {
	// fresh maps on every call, so Go's randomised map iteration differs
	m := &testMapper{fields: map[string]map[string]influxql.DataType{}, tags: map[string][]string{}}
	for k, v := range s.fields {
		mm := map[string]influxql.DataType{}
		for a, b := range v {
			mm[a] = b
		}
		m.fields[k] = mm
	}
	for k, v := range s.tags {
		m.tags[k] = append([]string(nil), v...)
	}
	return m
}

// cachingMapper hands out the very same maps on every call, like a schema
// cache would.
type cachingMapper struct{ m *testMapper }

func (c *cachingMapper) FieldDimensions(mm *influxql.Measurement) (map[string]influxql.DataType, map[string]struct{}, error) {
	f := c.m.fields[mm.Name]
	if f == nil {
		f = map[string]influxql.DataType{}
		c.m.fields[mm.Name] = f
	}
	if c.m.tagSets == nil {
		c.m.tagSets = map[string]map[string]struct{}{}
	}
	d := c.m.tagSets[mm.Name]
	if d == nil {
		d = map[string]struct{}{}
		for _, t := range c.m.tags[mm.Name] {
			d[t] = struct{}{}
		}
		c.m.tagSets[mm.Name] = d
	}
	return f, d, nil
}

func (c *cachingMapper) MapType(mm *influxql.Measurement, field string) influxql.DataType {
	return c.m.MapType(mm, field)
}

func (c *cachingMapper) CallType(name string, args []influxql.DataType) (influxql.DataType, error) {
	return c.m.CallType(name, args)
}

// typeRank orders types by the precedence float > integer > unsigned > string > boolean > tag.
func typeRank(t influxql.DataType) int {
	switch t {
	case influxql.Float:
		return 6
	case influxql.Integer:
		return 5
	case influxql.Unsigned:
		return 4
	case influxql.String:
		return 3
	case influxql.Boolean:
		return 2
	case influxql.Tag:
		return 1
	}
	return 0
}

type c12model struct {
	sch    *c12schema
	mapper *testMapper
}

// refType is the schema type of an untyped reference over the sources.
func (m *c12model) refType(name string, src influxql.Sources) influxql.DataType {
	best := influxql.Unknown
	for _, s := range src {
		switch s := s.(type) {
		case *influxql.Measurement:
			t := influxql.Unknown
			if ft, ok := m.sch.fields[s.Name][name]; ok {
				t = ft
			} else {
				for _, tg := range m.sch.tags[s.Name] {
					if tg == name {
						t = influxql.Tag
					}
				}
			}
			if typeRank(t) > typeRank(best) {
				best = t
			}
		case *influxql.SubQuery:
			found := false
			for _, f := range s.Statement.Fields {
				if c12fieldName(f) == name {
					found = true
					if t := m.exprType(f.Expr, s.Statement.Sources); typeRank(t) > typeRank(best) {
						best = t
					}
					break
				}
				// a tag argument of top()/bottom() is addressable by name too
				if c, ok := f.Expr.(*influxql.Call); ok && (c.Name == "top" || c.Name == "bottom") && len(c.Args) > 2 {
					hit := false
					for _, a := range c.Args[1 : len(c.Args)-1] {
						if v, ok := a.(*influxql.VarRef); ok && v.Val == name {
							if t := m.exprType(v, s.Statement.Sources); typeRank(t) > typeRank(best) {
								best = t
							}
							hit = true
							break
						}
					}
					if hit {
						found = true
						break
					}
				}
			}
			_ = found
			if best == influxql.Unknown {
				for _, d := range s.Statement.Dimensions {
					if v, ok := d.Expr.(*influxql.VarRef); ok && v.Val == name {
						best = influxql.Tag
					}
				}
			}
		}
	}
	return best
}

func c12fieldName(f *influxql.Field) string {
	if f.Alias != "" {
		return f.Alias
	}
	switch e := f.Expr.(type) {
	case *influxql.Call:
		return e.Name
	case *influxql.VarRef:
		return e.Val
	case *influxql.ParenExpr:
		return c12fieldName(&influxql.Field{Expr: e.Expr})
	}
	return ""
}

func (m *c12model) exprType(e influxql.Expr, src influxql.Sources) influxql.DataType {
	switch e := e.(type) {
	case *influxql.VarRef:
		if e.Type != influxql.Unknown && e.Type != influxql.AnyField {
			return e.Type
		}
		return m.refType(e.Val, src)
	case *influxql.Call:
		var at []influxql.DataType
		for _, a := range e.Args {
			at = append(at, m.exprType(a, src))
		}
		t, _ := m.mapper.CallType(e.Name, at)
		return t
	case *influxql.ParenExpr:
		return m.exprType(e.Expr, src)
	case *influxql.BinaryExpr:
		// arithmetic over integers and floats (the only operand kinds the
		// generator writes): a float operand makes the result a float, two
		// integers stay an integer - also under division
		l, r := m.exprType(e.LHS, src), m.exprType(e.RHS, src)
		switch {
		case l == influxql.Float && (r == influxql.Float || r == influxql.Integer), r == influxql.Float && l == influxql.Integer:
			return influxql.Float
		case l == influxql.Integer && r == influxql.Integer:
			return influxql.Integer
		case l == influxql.Unsigned && r == influxql.Unsigned:
			return influxql.Unsigned
		case l == influxql.Unsigned && r == influxql.Float, l == influxql.Float && r == influxql.Unsigned:
			return influxql.Float
		case l == influxql.Unsigned && r == influxql.Integer:
			// an integer literal adapts to an unsigned operand, on either side
			if _, lit := e.RHS.(*influxql.IntegerLiteral); lit {
				return influxql.Unsigned
			}
		case l == influxql.Integer && r == influxql.Unsigned:
			if _, lit := e.LHS.(*influxql.IntegerLiteral); lit {
				return influxql.Unsigned
			}
		}
		return influxql.Unknown
	case *influxql.NumberLiteral:
		return influxql.Float
	case *influxql.IntegerLiteral:
		return influxql.Integer
	case *influxql.StringLiteral:
		return influxql.String
	case *influxql.BooleanLiteral:
		return influxql.Boolean
	}
	return influxql.Unknown
}

type c12col struct {
	name string
	typ  influxql.DataType
}

// columns merges the schema of the sources.
func (m *c12model) columns(src influxql.Sources) (fields map[string]influxql.DataType, tags map[string]bool) {
	fields, tags = map[string]influxql.DataType{}, map[string]bool{}
	for _, s := range src {
		switch s := s.(type) {
		case *influxql.Measurement:
			for k, t := range m.sch.fields[s.Name] {
				if typeRank(t) > typeRank(fields[k]) {
					fields[k] = t
				}
			}
			for _, t := range m.sch.tags[s.Name] {
				tags[t] = true
			}
		case *influxql.SubQuery:
			for _, f := range s.Statement.Fields {
				k := c12fieldName(f)
				t := m.exprType(f.Expr, s.Statement.Sources)
				if _, ok := fields[k]; !ok || typeRank(t) > typeRank(fields[k]) {
					fields[k] = t
				}
			}
			for _, d := range s.Statement.Dimensions {
				if v, ok := d.Expr.(*influxql.VarRef); ok {
					tags[v.Val] = true
				}
			}
		}
	}
	return
}

func hasWild(n influxql.Node) bool {
	w := false
	influxql.WalkFunc(n, func(n influxql.Node) {
		switch n.(type) {
		case *influxql.Wildcard, *influxql.RegexLiteral:
			w = true
		}
	})
	return w
}

var c12wide = map[string]bool{"count": true, "first": true, "last": true, "distinct": true, "elapsed": true, "mode": true, "sample": true}

func c12accepts(fn string, t influxql.DataType) bool {
	switch t {
	case influxql.Float, influxql.Integer:
		return true
	case influxql.Unsigned:
		return fn != "holt_winters" && fn != "holt_winters_with_fit"
	case influxql.String:
		return c12wide[fn]
	case influxql.Boolean:
		return c12wide[fn] || fn == "min" || fn == "max"
	}
	return false
}

// rewrite applies the model to sel in place; expanded marks result fields
// that came from a call expansion (their alias is not part of the property).
func (m *c12model) rewrite(sel *influxql.SelectStatement) (expanded map[int]bool, wantErr bool) {
	for _, s := range sel.Sources {
		if sq, ok := s.(*influxql.SubQuery); ok {
			if _, e := m.rewrite(sq.Statement); e {
				return nil, true
			}
		}
	}
	typeRefs := func(n influxql.Node) {
		influxql.WalkFunc(n, func(n influxql.Node) {
			if v, ok := n.(*influxql.VarRef); ok && (v.Type == influxql.Unknown || v.Type == influxql.AnyField) {
				t := m.refType(v.Val, sel.Sources)
				if t == influxql.Tag && v.Type == influxql.AnyField {
					return
				}
				v.Type = t
			}
		})
	}
	typeRefs(sel.Fields)
	if sel.Condition != nil {
		typeRefs(sel.Condition)
	}
	fieldWild := hasWild(sel.Fields)
	dimWild := false
	for _, d := range sel.Dimensions {
		switch d.Expr.(type) {
		case *influxql.Wildcard, *influxql.RegexLiteral:
			dimWild = true
		}
	}
	if !fieldWild && !dimWild {
		return map[int]bool{}, false
	}
	fset, tset := m.columns(sel.Sources)
	var tagKeys []string
	for t := range tset {
		tagKeys = append(tagKeys, t)
	}
	sort.Strings(tagKeys)
	var cols []c12col
	for k, t := range fset {
		cols = append(cols, c12col{k, t})
	}
	if !dimWild {
		grouped := map[string]bool{}
		for _, d := range sel.Dimensions {
			if v, ok := d.Expr.(*influxql.VarRef); ok {
				grouped[v.Val] = true
			}
		}
		if len(fset) > 0 {
			for _, t := range tagKeys {
				if !grouped[t] {
					cols = append(cols, c12col{t, influxql.Tag})
				}
			}
		}
	}
	sort.Slice(cols, func(i, j int) bool {
		if cols[i].name != cols[j].name {
			return cols[i].name < cols[j].name
		}
		return cols[i].typ < cols[j].typ
	})
	expanded = map[int]bool{}
	if fieldWild {
		var out influxql.Fields
		for _, f := range sel.Fields {
			switch e := f.Expr.(type) {
			case *influxql.Wildcard:
				for _, c := range cols {
					if (e.Type == influxql.FIELD && c.typ == influxql.Tag) || (e.Type == influxql.TAG && c.typ != influxql.Tag) {
						continue
					}
					out = append(out, &influxql.Field{Expr: &influxql.VarRef{Val: c.name, Type: c.typ}})
				}
			case *influxql.RegexLiteral:
				for _, c := range cols {
					if e.Val.MatchString(c.name) {
						out = append(out, &influxql.Field{Expr: &influxql.VarRef{Val: c.name, Type: c.typ}})
					}
				}
			case *influxql.Call:
				inner := e
				for len(inner.Args) > 0 {
					a, ok := inner.Args[0].(*influxql.Call)
					if !ok {
						break
					}
					inner = a
				}
				if len(inner.Args) == 0 {
					out = append(out, f)
					continue
				}
				var match func(string) bool
				switch a := inner.Args[0].(type) {
				case *influxql.Wildcard:
					if a.Type == influxql.TAG {
						return nil, true
					}
					match = func(string) bool { return true }
				case *influxql.RegexLiteral:
					match = a.Val.MatchString
				default:
					out = append(out, f)
					continue
				}
				text := f.Expr.String()
				for _, c := range cols {
					if c.typ == influxql.Tag || !c12accepts(inner.Name, c.typ) || !match(c.name) {
						continue
					}
					// a fresh copy of the call with the innermost first argument replaced
					ne, err := influxql.ParseExpr(text)
					if err != nil {
						panic("harness: cannot re-parse call " + text)
					}
					in2 := ne.(*influxql.Call)
					for {
						a, ok := in2.Args[0].(*influxql.Call)
						if !ok {
							break
						}
						in2 = a
					}
					in2.Args[0] = &influxql.VarRef{Val: c.name, Type: c.typ}
					// types already assigned to other references of the template
					influxql.WalkFunc(ne, func(n influxql.Node) {})
					expanded[len(out)] = true
					out = append(out, &influxql.Field{Expr: ne, Alias: c12fieldName(f) + "_" + c.name})
				}
			case *influxql.BinaryExpr:
				if hasWild(e) {
					return nil, true
				}
				out = append(out, f)
			default:
				out = append(out, f)
			}
		}
		sel.Fields = out
	}
	if dimWild {
		var out influxql.Dimensions
		for _, d := range sel.Dimensions {
			switch e := d.Expr.(type) {
			case *influxql.Wildcard:
				for _, t := range tagKeys {
					out = append(out, &influxql.Dimension{Expr: &influxql.VarRef{Val: t}})
				}
			case *influxql.RegexLiteral:
				for _, t := range tagKeys {
					if e.Val.MatchString(t) {
						out = append(out, &influxql.Dimension{Expr: &influxql.VarRef{Val: t}})
					}
				}
			default:
				out = append(out, d)
			}
		}
		sel.Dimensions = out
	}
	return expanded, false
}

// ---- workload ---------------------------------------------------------------

var c12fieldPool = []string{"f0", "f1", "f2", "f3", "f4", "g0", "g1", "t1", "h0", "h1", "h2", "h3", "t0"}
var c12tagPool = []string{"t0", "t1", "t2", "f0", "t3", "h0"}
var c12fns = []string{"count", "first", "last", "distinct", "elapsed", "mode", "sample", "min", "max", "mean", "sum", "holt_winters", "holt_winters_with_fit", "percentile", "derivative", "top", "median"}

func c12GenSchema(rg *mon.Rng) *c12schema {
	s := &c12schema{fields: map[string]map[string]influxql.DataType{}, tags: map[string][]string{}}
	nm := rg.Intn(5)
	for i := 0; i < nm; i++ {
		name := fmt.Sprintf("m%d", i)
		s.fields[name] = map[string]influxql.DataType{}
		nf := rg.Intn(10)
		for j := 0; j < nf; j++ {
			s.fields[name][c12fieldPool[rg.Intn(len(c12fieldPool))]] = allTypes[rg.Intn(len(allTypes))]
		}
		if len(s.fields[name]) > 0 {
			nt := rg.Intn(6)
			seen := map[string]bool{}
			for j := 0; j < nt; j++ {
				t := c12tagPool[rg.Intn(len(c12tagPool))]
				if _, isField := s.fields[name][t]; !seen[t] && !isField {
					seen[t] = true
					s.tags[name] = append(s.tags[name], t)
				}
			}
		}
	}
	return s
}

func c12GenSelect(rg *mon.Rng, depth int) string { return c12GenSelectAt(rg, depth, true) }

func c12GenSelectAt(rg *mon.Rng, depth int, top bool) string {
	var fields []string
	nf := rg.Range(1, 5)
	for i := 0; i < nf; i++ {
		var f string
		fn := c12fns[rg.Intn(len(c12fns))]
		switch rg.Intn(14) {
		case 0:
			f = "*"
		case 1:
			f = "*::field"
		case 2:
			f = "*::tag"
		case 3:
			f = rg.Pick("/f[0-3]/", "/^[fg]0$/", "/t/", "/.*/", "/nomatch/")
		case 4:
			f = fn + "(*)"
		case 5:
			f = fn + "(" + rg.Pick("/f[0-3]/", "/g/", "/.*/") + ")"
		case 6:
			f = fn + "(" + c12fns[rg.Intn(len(c12fns))] + "(*), 1s)"
		case 7:
			f = fn + "(*::field, 5)"
		case 8:
			f = c12fieldPool[rg.Intn(len(c12fieldPool))] + rg.Pick("", "", "::float", "::integer", "::field", "::tag", "::string")
		case 9:
			f = fn + "(" + c12fieldPool[rg.Intn(len(c12fieldPool))] + ")"
		case 10:
			f = c12tagPool[rg.Intn(len(c12tagPool))]
		case 11:
			f = fn + "()"
		case 12:
			f = rg.Pick(fn+"(*::tag)", "* + 1", "(f0)", "top(f0, t0, 2)", "f1", "((f0))", "(((f1)))", "((f2::float))")
			if !top && rg.P(0.4) {
				// arithmetic over explicitly typed integer / float operands, under
				// an alias: a column of the subquery whose type the model knows
				f = rg.Pick("f0::integer / f1::integer", "f0::integer + f1::float", "f0::float * 2", "f2::integer % f0::integer", "(f0::integer - 1)", "f1::integer / 2", "f1::float / f0::float", "f0::integer * f1::integer - f2::integer",
					"f0::unsigned + 5", "5 + f0::unsigned", "2 * f1::unsigned", "f1::unsigned / 2", "f0::unsigned * f1::unsigned", "f0::unsigned + f1::float", "1.5 * f2::unsigned", "7 % f0::unsigned", "(3 + f1::unsigned) * 2", "f0::unsigned & 255", "255 | f2::unsigned") + " AS q" + fmt.Sprint(i)
			}
			if top && rg.P(0.4) {
				// arithmetic fields only at the top level: their output type as a
				// subquery column is outside the model
				f = rg.Pick("f0 + f1", "f0 * 2", "mean(f1) + 1")
			}
		default:
			f = fn + "(" + c12fieldPool[rg.Intn(len(c12fieldPool))] + ", *)"
		}
		if rg.P(0.2) && !strings.HasPrefix(f, "*") && !strings.HasPrefix(f, "/") && !strings.Contains(f, " AS ") {
			f += " AS a" + fmt.Sprint(i)
		}
		fields = append(fields, f)
	}
	var srcs []string
	ns := rg.Range(1, 3)
	for i := 0; i < ns; i++ {
		if depth > 0 && rg.P(0.3) {
			srcs = append(srcs, "("+c12GenSelectAt(rg, depth-1, false)+")")
		} else {
			srcs = append(srcs, fmt.Sprintf("m%d", rg.Intn(6)))
		}
	}
	q := "SELECT " + strings.Join(fields, ", ") + " FROM " + strings.Join(srcs, ", ")
	if rg.P(0.4) {
		q += " WHERE " + c12fieldPool[rg.Intn(len(c12fieldPool))] + " > 1 AND " + c12tagPool[rg.Intn(len(c12tagPool))] + " = 'x'"
	}
	switch rg.Intn(6) {
	case 0:
		q += " GROUP BY " + c12tagPool[rg.Intn(len(c12tagPool))]
	case 1:
		q += " GROUP BY *"
	case 2:
		q += " GROUP BY " + rg.Pick("/t[01]/", "/.*/", "/f/")
	case 3:
		q += " GROUP BY time(1m), " + c12tagPool[rg.Intn(len(c12tagPool))] + ", " + c12tagPool[rg.Intn(len(c12tagPool))]
	case 4:
		q += " GROUP BY *, " + c12tagPool[rg.Intn(len(c12tagPool))]
	}
	return q
}

func stripAliases(sel *influxql.SelectStatement, idx map[int]bool) {
	for i, f := range sel.Fields {
		if idx[i] {
			f.Alias = ""
		}
	}
}

func c12One(c *Ctx, idx int, local map[string]int64) {
	if idx == -2000 {
		c12PerDatabase(c)
		return
	}
	if idx <= -1000 {
		c12Joined(c) // replay of a case from the fixed sequence: the whole sequence
		return
	}
	rg := mon.NewRng(c.Seed, "c12", idx)
	sch := c12GenSchema(rg)
	text := c12GenSelect(rg, 3)
	c12Case(c, idx, sch, text, local)
}

// c12Joined: column names and regexes whose texts run into each other when
// written side by side (/1/ against "15m", /11/ against "5m"), asked one after
// the other in this process, in both orders (on separate name sets): what was
// matched before must not answer for another pair.
func c12Joined(c *Ctx) {
	local := map[string]int64{}
	mk := func(names ...string) *c12schema {
		sch := &c12schema{fields: map[string]map[string]influxql.DataType{"m0": {}}, tags: map[string][]string{"m0": nil}}
		for i, n := range names {
			if strings.HasPrefix(n, "t:") {
				sch.tags["m0"] = append(sch.tags["m0"], n[2:])
			} else {
				sch.fields["m0"][n] = []influxql.DataType{influxql.Float, influxql.Integer, influxql.String}[i%3]
			}
		}
		return sch
	}
	a := mk("15m", "5m", "115m", "1", "11", "m", "t:dc", "t:dcn", "t:cn", "t:d", "t:n")
	b := mk("27x", "7x", "227x", "2", "22", "x", "t:ab", "t:abc", "t:bc", "t:a", "t:c")
	k := 0
	run := func(sch *c12schema, texts ...string) {
		for _, t := range texts {
			k++
			c12Case(c, -1000-k, sch, t, local)
		}
	}
	run(a, "SELECT /1/ FROM m0", "SELECT /11/ FROM m0", "SELECT /5/ FROM m0", "SELECT /15/ FROM m0", "SELECT mean(/11/), max(/1/) FROM m0", "SELECT m FROM m0 GROUP BY /d/", "SELECT m FROM m0 GROUP BY /dd/", "SELECT m FROM m0 GROUP BY dc, /dd/", "SELECT m FROM m0 GROUP BY /dc/", "SELECT m FROM m0 GROUP BY /c/, /n/")
	run(b, "SELECT /22/ FROM m0", "SELECT /2/ FROM m0", "SELECT /27/ FROM m0", "SELECT /7/ FROM m0", "SELECT max(/2/), mean(/22/) FROM m0", "SELECT x FROM m0 GROUP BY /aa/", "SELECT x FROM m0 GROUP BY /a/", "SELECT x FROM m0 GROUP BY /bc/", "SELECT x FROM m0 GROUP BY /b/, /c/")
	c.R.MergeCounts(local)
	c.R.Count("joined-text-sequence", int64(k))
}

// composedMapper: field dimensions from one mapper, types from another.
type composedMapper struct {
	fd *testMapper
	influxql.TypeMapper
}

func (c *composedMapper) FieldDimensions(mm *influxql.Measurement) (map[string]influxql.DataType, map[string]struct{}, error) {
	return c.fd.FieldDimensions(mm)
}

func (c *composedMapper) CallType(name string, args []influxql.DataType) (influxql.DataType, error) {
	return c.TypeMapper.(influxql.CallTypeMapper).CallType(name, args)
}

// partialCalls answers CallType only for function names of odd (or even)
// length and knows nothing else.
type partialCalls struct {
	m   *testMapper
	odd bool
}

func (p partialCalls) MapType(mm *influxql.Measurement, field string) influxql.DataType {
	return influxql.Unknown
}

func (p partialCalls) CallType(name string, args []influxql.DataType) (influxql.DataType, error) {
	if (len(name)%2 == 1) != p.odd {
		return influxql.Unknown, nil
	}
	return p.m.CallType(name, args)
}

// c12PerDatabase: measurements of one name in several databases / retention
// policies, each with a schema of its own (the mapper is keyed by the full
// name): the expansion is the union over all sources.
func c12PerDatabase(c *Ctx) {
	r := c.R
	schemas := map[string]struct {
		f map[string]influxql.DataType
		t []string
	}{
		"db0..cpu":    {map[string]influxql.DataType{"usage": influxql.Integer, "sys": influxql.Float}, []string{"host"}},
		"db1..cpu":    {map[string]influxql.DataType{"usage": influxql.Float, "idle": influxql.Float}, []string{"host", "region"}},
		".rp0.cpu":    {map[string]influxql.DataType{"a": influxql.Integer}, []string{"t0"}},
		".rp1.cpu":    {map[string]influxql.DataType{"b": influxql.String}, []string{"t1"}},
		"db2.rp2.cpu": {map[string]influxql.DataType{"c": influxql.Boolean}, []string{"t2"}},
	}
	fm := keyedMapper(func(mm *influxql.Measurement) (map[string]influxql.DataType, []string) {
		s := schemas[mm.Database+"."+mm.RetentionPolicy+"."+mm.Name]
		return s.f, s.t
	})
	for _, tc := range []struct{ q, want string }{
		{"SELECT * FROM db0..cpu, db1..cpu", "SELECT host::tag, idle::float, region::tag, sys::float, usage::float FROM db0..cpu, db1..cpu"},
		{"SELECT * FROM db1..cpu, db0..cpu", "SELECT host::tag, idle::float, region::tag, sys::float, usage::float FROM db1..cpu, db0..cpu"},
		{"SELECT * FROM rp0.cpu, rp1.cpu", "SELECT a::integer, b::string, t0::tag, t1::tag FROM rp0.cpu, rp1.cpu"},
		{"SELECT max(*) FROM db0..cpu, db1..cpu, db2.rp2.cpu", "SELECT max(c::boolean) AS max_c, max(idle::float) AS max_idle, max(sys::float) AS max_sys, max(usage::float) AS max_usage FROM db0..cpu, db1..cpu, db2.rp2.cpu"},
		{"SELECT usage FROM db0..cpu, db1..cpu GROUP BY *", "SELECT usage::float FROM db0..cpu, db1..cpu GROUP BY host, region"},
		{"SELECT * FROM (SELECT * FROM db0..cpu, db1..cpu)", "SELECT host::tag, idle::float, region::tag, sys::float, usage::float FROM (SELECT host::tag, idle::float, region::tag, sys::float, usage::float FROM db0..cpu, db1..cpu)"},
		{"SELECT * FROM db0..cpu, db0..cpu", "SELECT host::tag, sys::float, usage::integer FROM db0..cpu, db0..cpu"},
	} {
		st, err := influxql.ParseStatement(tc.q)
		if err != nil {
			r.Violation("generated-statement-rejected", map[string]interface{}{"idx": -2000, "input": tc.q, "why": err.Error()})
			continue
		}
		var o *influxql.SelectStatement
		var e error
		if p, pv, stk := mon.Try(func() { o, e = st.(*influxql.SelectStatement).RewriteFields(fm) }); p {
			r.Violation("panic", map[string]interface{}{"idx": -2000, "input": tc.q, "why": fmt.Sprint(pv), "stack": stk})
			continue
		}
		r.Eval(1)
		if e != nil || o.String() != tc.want {
			got := fmt.Sprint(e)
			if e == nil {
				got = o.String()
			}
			r.Violation("expansion-differs", map[string]interface{}{"idx": -2000, "input": tc.q, "schema": "per database / retention policy, see c12PerDatabase", "why": "got " + got + " | want " + tc.want})
			continue
		}
		r.Count("per-database-schemas", 1)
	}
}

type keyedMapper func(mm *influxql.Measurement) (map[string]influxql.DataType, []string)

func (k keyedMapper) FieldDimensions(mm *influxql.Measurement) (map[string]influxql.DataType, map[string]struct{}, error) {
	f, t := k(mm)
	fields := map[string]influxql.DataType{}
	for n, ty := range f {
		fields[n] = ty
	}
	tags := map[string]struct{}{}
	for _, n := range t {
		tags[n] = struct{}{}
	}
	return fields, tags, nil
}

func (k keyedMapper) MapType(mm *influxql.Measurement, field string) influxql.DataType {
	f, t := k(mm)
	if ty, ok := f[field]; ok {
		return ty
	}
	for _, n := range t {
		if n == field {
			return influxql.Tag
		}
	}
	return influxql.Unknown
}

func (k keyedMapper) CallType(name string, args []influxql.DataType) (influxql.DataType, error) {
	if len(args) > 0 {
		return args[0], nil
	}
	return influxql.Unknown, nil
}

func c12Case(c *Ctx, idx int, sch *c12schema, text string, local map[string]int64) {
	r := c.R
	det := func(why string) map[string]interface{} {
		return map[string]interface{}{"idx": idx, "input": text, "schema": fmt.Sprint(sch.fields, sch.tags), "why": why}
	}
	st, err, pan, _, _ := parseQuery1(text)
	if pan || err != nil {
		r.Violation("generated-statement-rejected", det(fmt.Sprint(err)))
		return
	}
	sel := st.(*influxql.SelectStatement)
	before := dumpOf(sel)
	var got *influxql.SelectStatement
	var gerr error
	if p, pv, stk := mon.Try(func() { got, gerr = sel.RewriteFields(sch.mapper()) }); p {
		d := det(fmt.Sprint(pv))
		d["stack"] = stk
		r.Violation("panic", d)
		return
	}
	r.Eval(1)
	r.DistinctStr(text + fmt.Sprint(sch.fields, sch.tags))
	local["cases"]++
	if dumpOf(sel) != before {
		r.Violation("receiver-changed", det("RewriteFields modified the statement it was called on"))
		return
	}
	// the model, on a fresh parse
	st2, _, _, _, _ := parseQuery1(text)
	want := st2.(*influxql.SelectStatement)
	m := &c12model{sch: sch, mapper: sch.mapper()}
	expanded, wantErr := m.rewrite(want)
	if wantErr != (gerr != nil) {
		r.Violation("error-mismatch", det(fmt.Sprintf("model expects error=%v, RewriteFields returned error=%v", wantErr, gerr)))
		return
	}
	if gerr != nil {
		local["expected-errors"]++
		return
	}
	if len(got.Fields) != len(want.Fields) {
		r.Violation("expansion-differs", det(fmt.Sprintf("result has %d fields, model %d: got %s | want %s", len(got.Fields), len(want.Fields), got.Fields, want.Fields)))
		return
	}
	if a, b := dumpOf(want), dumpOf(got); a != b {
		r.Violation("expansion-differs", det(fmt.Sprintf("%s; got %s | want %s", astx.FirstDiff(a, b), trunc(got.String(), 400), trunc(want.String(), 400))))
		return
	}
	if len(expanded) > 0 {
		local["call-expansions"]++
	}
	if hasWild(sel.Fields) {
		local["field-wildcards"]++
	}
	if len(got.Dimensions) != len(sel.Dimensions) {
		local["dimension-expansions"]++
	}
	// the same schema through a mapper put together the way a server does it:
	// field dimensions from the schema, types from MultiTypeMapper over two
	// mappers that each know only part of the functions, in front of the schema
	{
		base := sch.mapper()
		comp := &composedMapper{fd: base, TypeMapper: influxql.MultiTypeMapper(partialCalls{m: base, odd: true}, partialCalls{m: base, odd: false}, base)}
		o, e := sel.RewriteFields(comp)
		if (e == nil) != (gerr == nil) || (e == nil && dumpOf(o) != dumpOf(got)) {
			r.Violation("expansion-differs", det(fmt.Sprintf("through a mapper composed with MultiTypeMapper (two partial call-type mappers in front of the schema) the result differs: %v | %s", e, astx.FirstDiff(dumpOf(got), dumpOf(o)))))
			return
		}
		local["composed-mapper"]++
	}
	// a mapper that hands out its own (cached) maps must find them untouched,
	// and a second call through it must give the same answer
	pm := sch.mapper()
	cached := &cachingMapper{m: pm}
	cached.FieldDimensions(&influxql.Measurement{Name: "m0"})
	for i := 0; i < 6; i++ {
		cached.FieldDimensions(&influxql.Measurement{Name: fmt.Sprintf("m%d", i)})
	}
	snap := fmt.Sprint(pm.fields, pm.tagSets)
	o1, e1 := sel.RewriteFields(cached)
	o2, e2 := sel.RewriteFields(cached)
	if after := fmt.Sprint(pm.fields, pm.tagSets); after != snap {
		r.Violation("schema-modified", det("RewriteFields changed the maps handed out by the schema mapper: before "+trunc(snap, 300)+" after "+trunc(after, 300)))
		return
	}
	if (e1 == nil) != (e2 == nil) || (e1 == nil && (dumpOf(o1) != dumpOf(o2) || dumpOf(o1) != dumpOf(got))) {
		r.Violation("not-deterministic", det("calls through a mapper that caches its maps differ from the first answer"))
		return
	}
	// determinism: repeated calls with fresh mapper maps
	first := dumpOf(func() *influxql.SelectStatement { o, _ := sel.RewriteFields(sch.mapper()); return o }())
	reps := 12
	for i := 0; i < reps; i++ {
		o, _ := sel.RewriteFields(sch.mapper())
		if d := dumpOf(o); d != first {
			r.Violation("not-deterministic", det("two calls with the same statement and schema differ: "+astx.FirstDiff(first, d)))
			return
		}
	}
	local["repeats"] += int64(reps)
	local["ok"]++
}

// stripNested blanks the aliases of expanded call fields inside subqueries
// (the model and the code may name them differently; names are not part of
// the property) by re-running the model's bookkeeping on the subquery pairs.
func stripNested(got, want *influxql.SelectStatement, m *c12model) {
	for i := range want.Sources {
		ws, ok1 := want.Sources[i].(*influxql.SubQuery)
		if i >= len(got.Sources) {
			return
		}
		gs, ok2 := got.Sources[i].(*influxql.SubQuery)
		if !ok1 || !ok2 || len(ws.Statement.Fields) != len(gs.Statement.Fields) {
			continue
		}
		for j := range ws.Statement.Fields {
			if ws.Statement.Fields[j].Alias == "" && gs.Statement.Fields[j].Alias != "" {
				if _, isCall := ws.Statement.Fields[j].Expr.(*influxql.Call); isCall {
					gs.Statement.Fields[j].Alias = ""
				}
			}
		}
		stripNested(gs.Statement, ws.Statement, m)
	}
}

func checkC12(c *Ctx) (string, bool, []string) {
	r := c.R
	rule := "schemas of 0-4 measurements x 0-9 fields from a pool of 13 names and 0-5 tag keys from a pool of 6 (overlaps, conflicting types, all five field types, tag keys that are fields elsewhere, empty and unknown measurements); SELECTs with 1-5 fields from {typed / untyped references, *, *::field, *::tag, /re/, f(*), f(/re/), f(g(*), 1s), f(x, *), f(), f(*::tag) and * + 1 (must fail), arithmetic, aliases} over 17 function names, 1-3 sources incl. subqueries to depth 3, optional WHERE, GROUP BY {tag, *, /re/, time + tags, * + tag}. RewriteFields is compared with the model (names, types, order, positions, dimension list, typed references in fields and WHERE), repeated 12 times with fresh maps, receiver dump compared. Non-trivial = every case; distinct by (statement, schema)."
	assume := []string{"a measurement that has tag keys has at least one field (InfluxDB invariant)", "an expanded call f(*) yields one field per column, named <field name>_<column> (observable as a subquery output column)", "sort order among equal names follows the type code", "subquery output names that collide are outside the generated domain only by chance; the model mirrors first-match lookup"}
	if c.Replay != nil {
		c12One(c, replayInt(c, "idx"), map[string]int64{})
		return rule, false, assume
	}
	n := c.N(15000, 600000)
	c12Joined(c)
	c12PerDatabase(c)
	mon.Parallel(n, c.Workers, func(i int) {
		local := map[string]int64{}
		c12One(c, i, local)
		if i < 4 {
			rg := mon.NewRng(c.Seed, "c12", i)
			sch := c12GenSchema(rg)
			r.Sample(map[string]string{"schema": fmt.Sprint(sch.fields, sch.tags), "statement": c12GenSelect(rg, 3)})
		}
		r.MergeCounts(local)
	})
	r.Require(r.Counter("ok") > 0 && r.Counter("call-expansions") > 0 && r.Counter("field-wildcards") > 0 && r.Counter("dimension-expansions") > 0 && r.Counter("expected-errors") > 0, "expansion kinds not covered")
	return rule, false, assume
}
