package checks

import (
	"fmt"
	"os"
)

// Workers are child processes used by the monitors that must survive
// process-fatal events in the code under test (C04, C13, C17).
var workerKinds = map[string]func(args []string) int{}

// WorkerMain dispatches `vcheck --worker <kind> args...`.
func WorkerMain(args []string) int {
	if len(args) == 0 {
		fmt.Fprintln(os.Stderr, "worker kind missing")
		return 3
	}
	f, ok := workerKinds[args[0]]
	if !ok {
		fmt.Fprintf(os.Stderr, "unknown worker kind %s\n", args[0])
		return 3
	}
	return f(args[1:])
}
