package checks

import (
	"fmt"
	"io"
	"strings"
	"testing/iotest"
	"time"

	"github.com/influxdata/influxql"
	"verifharness/astx"
	"verifharness/gen"
	"verifharness/mon"
)

// C16 — statement separation, whitespace and comments do not change meaning.
//
// Oracle: metamorphic — the baseline parse of the same token list. Gaps come
// from the renderer's token boundaries, not from re-scanning the text.

func init() { Registry["C16"] = checkC16 }

var c16ws = []struct{ name, text string }{
	{"tab", "\t"}, {"lf", "\n"}, {"cr", "\r"}, {"crlf", "\r\n"}, {"mixed", " \t\r\n \n"}, {"two-spaces", "  "}, {"crlf-cr", "\r\n\r"}, {"cr-crlf", "\r\r\n"}, {"crlf-crlf", "\r\n\r\n"},
}

var c16comments = []struct{ name, text string }{
	{"block", " /* c */ "}, {"block-stars", " /* * / ** */ "}, {"line", " -- c\n"}, {"line-own-line", "\n-- c\n "}, {"line-crlf", " -- c\r\n"}, {"block-multiline", " /* a\n b */ "}, {"block-banner", " /*** banner ***/ "}, {"block-odd-stars", " /* x *****/ "}, {"block-empty", " /**/ "}, {"line-empty", " --\n"},
	{"block-leading-slash", " /*/ x */ "}, {"block-slashes", " /*// a /* b / */ "}, {"block-only-slash", " /*/*/ "}, {"block-dashes", " /*-- x --*/ "}, {"line-block-opener", " -- /* c\n"}, {"line-dashes", " ---- c --\n"}, {"block-quote", " /* it's \"q\" */ "}, {"two-blocks", " /* a */ /* b */ "},
	{"two-lines", "\n-- a\n-- b\n"}, {"line-then-block", " -- a\n/* b */ "}, {"block-then-line", " /* a */-- b\n"}, {"three-mixed", "\n--a\n/*b*/\n--c\n"}, {"blocks-touching", " /* a *//* b */ "}, {"line-crlf-line", " -- a\r\n-- b\r\n"},
	{"stars-1", " /***/ "}, {"stars-2", " /****/ "}, {"stars-3", " /*****/ "}, {"stars-6", " /* x ******/ "}, {"stars-9", " /* x *********/ "}, {"line-digit", " --1st\n"}, {"line-date", " --2024-01-01 x\n"}, {"line-zero", " --0\n"}, {"line-dash-digit", " ---1\n"},
	// a line comment ended by a lone CR (the reader folds CR, CRLF and LF into one line break), alone, repeated, and followed by LF-ended ones
	{"line-cr", " -- c\r"}, {"line-cr-line", " -- a\r-- b\r"}, {"line-cr-then-lf-line", " -- a\r -- b\n"}, {"line-empty-cr", " --\r"}, {"line-cr-block", " -- a\r/* b */ "},
}

// c16Gaps edits every whitespace gap of one generated statement.
func c16Gaps(c *Ctx, gc *GCase, local map[string]int64) {
	r := c.R
	base, err, pan, _, _ := parseQuery1(gc.Text)
	if pan || err != nil {
		local["baseline-not-accepted(skipped)"]++
		return
	}
	baseDump := dumpOf(base)
	toks := gc.G.B.Toks
	for gi, g := range gc.Gaps {
		if g.End == g.Start { // no whitespace in this gap (adjacent tokens / start of text)
			continue
		}
		prev, next := "^", toks[g.Index].Name
		if g.Index > 0 {
			prev = toks[g.Index-1].Name
		}
		try := func(kind, name, repl string) {
			text := gc.Text[:g.Start] + repl + gc.Text[g.End:]
			st, err, pan, pv, stk := parseQuery1(text)
			r.Eval(1)
			r.DistinctStr(text)
			local["edits."+kind]++
			det := func(why string) map[string]interface{} {
				return map[string]interface{}{"sub": "gap", "label": gc.Label, "idx": gc.Idx, "kind_index": gc.Kind, "mask": gc.Mask, "gap": gi, "edit": name, "before": prev, "after": next, "input": text, "baseline": gc.Text, "why": why}
			}
			if pan {
				d := det(fmt.Sprint(pv))
				d["stack"] = stk
				r.Violation("panic", d)
				return
			}
			why := ""
			if err != nil {
				why = "edited text rejected: " + err.Error()
			} else if d := dumpOf(st); d != baseDump {
				why = "AST changed: " + astx.FirstDiff(baseDump, d)
			}
			if why == "" && strings.Contains(repl, "\r") {
				// line ends also as a reader delivers them in pieces: byte by byte,
				// and in chunks that end after every CR
				for ri, rd := range []io.Reader{iotest.OneByteReader(strings.NewReader(text)), &crChunkReader{s: text}} {
					var q2 *influxql.Query
					var err2 error
					if p2, pv2, stk2 := mon.Try(func() { q2, err2 = influxql.NewParser(rd).ParseQuery() }); p2 {
						d := det(fmt.Sprint(pv2))
						d["stack"] = stk2
						r.Violation("panic", d)
						return
					}
					if err2 != nil {
						why = fmt.Sprintf("read in pieces (reader %d: 0 byte by byte, 1 chunks ending after each CR) the edited text is rejected: %v", ri, err2)
					} else if len(q2.Statements) != 1 || dumpOf(q2.Statements[0]) != baseDump {
						why = fmt.Sprintf("read in pieces (reader %d) the AST changed", ri)
					}
					local["edits.read-in-pieces"]++
				}
			}
			if why == "" {
				local["edits.same-ast"]++
				return
			}
			if key := c16Known(kind, name, prev, next, toks, g.Index); key != "" && r.Known(key, text) {
				local["known."+key]++
				return
			}
			r.Violation("layout-changes-meaning", det(why))
		}
		for _, w := range c16ws {
			try("ws", w.name, w.text)
		}
		for _, cm := range c16comments {
			try("comment", cm.name, cm.text)
		}
	}
}

// c16Known recognises the known deviations by (edit, token before the gap,
// token after the gap).
func c16Known(kind, name, prev, next string, toks []gen.Tok, idx int) string {
	return ""
}

// c16State: "each statement identical to the result of parsing it alone" over
// what a parser may remember from earlier statements of the same query: 35000
// statements with two argument-less calls each and then one with nested calls;
// a time zone written correctly and then, in a later statement, in another
// letter case (alone, that statement is accepted or rejected - in the query it
// gets the same treatment).
func c16State(c *Ctx) {
	r := c.R
	{
		one := "SELECT now(), count() FROM m WHERE time > now()"
		last := "SELECT mean(f(g(x))), now() FROM m"
		text := strings.Repeat(one+";", 35000) + last
		q, err, pan, pv, stk := func() (q *influxql.Query, err error, pan bool, pv interface{}, stk string) {
			pan, pv, stk = mon.Try(func() { q, err = influxql.ParseQuery(text) })
			return
		}()
		r.Eval(1)
		w1, _ := influxql.ParseStatement(one)
		w2, _ := influxql.ParseStatement(last)
		switch {
		case pan:
			r.Violation("panic", map[string]interface{}{"sub": "state", "input": "35000 x " + one + "; " + last, "why": fmt.Sprint(pv), "stack": stk})
		case err != nil:
			r.Violation("statement-differs-from-standalone-parse", map[string]interface{}{"sub": "state", "input": "35000 x " + one + "; " + last, "why": "every statement is accepted alone, the query is rejected: " + err.Error()})
		case len(q.Statements) != 35001 || dumpOf(q.Statements[0]) != dumpOf(w1) || dumpOf(q.Statements[34999]) != dumpOf(w1) || dumpOf(q.Statements[35000]) != dumpOf(w2):
			r.Violation("statement-differs-from-standalone-parse", map[string]interface{}{"sub": "state", "input": "35000 x " + one + "; " + last, "why": fmt.Sprintf("%d statements; the first, the 35000th or the last differs from its stand-alone parse", len(q.Statements))})
		default:
			r.Count("state.query-of-35001-statements", 1)
		}
	}
	for _, z := range c04Zones {
		if _, err := time.LoadLocation(z); err != nil || z == strings.ToLower(z) {
			continue
		}
		for _, variant := range []string{strings.ToLower(z), strings.ToUpper(z)} {
			good, other := "SELECT v FROM m TZ('"+z+"')", "SELECT v FROM m TZ('"+variant+"')"
			for _, text := range []string{good + "; " + other, other + "; " + good, good + "; " + good + "; " + other} {
				parts := strings.Split(text, "; ")
				var q *influxql.Query
				var err error
				if p, pv, stk := mon.Try(func() { q, err = influxql.ParseQuery(text) }); p {
					r.Violation("panic", map[string]interface{}{"sub": "state", "input": text, "why": fmt.Sprint(pv), "stack": stk})
					return
				}
				r.Eval(1)
				aloneOK := true
				var alone []string
				for _, p := range parts {
					st, e := influxql.ParseStatement(p)
					if e != nil {
						aloneOK = false
						break
					}
					alone = append(alone, dumpOf(st))
				}
				bad := ""
				if aloneOK != (err == nil) {
					bad = fmt.Sprintf("alone, all statements accepted = %v; the query: err = %v", aloneOK, err)
				} else if err == nil {
					for k := range parts {
						if k >= len(q.Statements) || dumpOf(q.Statements[k]) != alone[k] {
							bad = fmt.Sprintf("statement %d differs from its stand-alone parse", k+1)
						}
					}
				}
				if bad != "" {
					r.Violation("statement-differs-from-standalone-parse", map[string]interface{}{"sub": "state", "input": text, "why": bad})
					return
				}
				r.Count("state.zone-spelled-twice", 1)
			}
		}
	}
}

func checkC16(c *Ctx) (string, bool, []string) {
	r := c.R
	rule := "(A) 2-5 (one case in forty: 65-700, cycling through 12) generated statements joined by ';' with random whitespace, empty statements and optional trailing ';' must parse to exactly those statements (each equal to its stand-alone parse); joined by whitespace only must be rejected. (B)+(C) for one statement per (kind, clause subset) and random payload statements: EVERY whitespace gap x 6 whitespace substitutions x every listed comment insertion, among them line comments ended by a lone CR (six of them two or three comments in one gap, the second starting in column 0) (block, starred block, banner and odd-star terminators, empty block, multi-line block, blocks whose text begins with a slash or holds comment openers, dashes or quotes, two adjacent blocks, line, empty line comment, line comments holding a block opener or more dashes, line on its own line, line+CRLF) is enumerated and the AST compared with the baseline. Non-trivial = edited text differs from baseline; distinct by edited text."
	assume := []string{"the baseline rendering puts one space into every gap where whitespace is legal", "a comment is inserted only inside existing whitespace, flanked by whitespace"}
	if c.Replay != nil {
		local := map[string]int64{}
		switch replayStr(c, "sub") {
		case "gap":
			text := replayStr(c, "input")
			base := replayStr(c, "baseline")
			b, e1, _, _, _ := parseQuery1(base)
			s, e2, p2, _, _ := parseQuery1(text)
			if e1 == nil && (p2 || e2 != nil || dumpOf(b) != dumpOf(s)) {
				r.Violation("layout-changes-meaning", map[string]interface{}{"input": text, "why": fmt.Sprint(e2)})
			}
		case "join":
			c16Join(c, replayInt(c, "idx"), local)
		case "state":
			c16State(c)
		}
		return rule, false, assume
	}
	c16State(c)
	// (B)+(C): exhaustive gaps over clause-subset statements
	type job struct{ kind, mask int }
	var jobs []job
	for k, kd := range gen.Kinds {
		n := 1 << uint(len(kd.Clauses))
		step := 1
		if !c.Thorough() && n > 64 {
			step = n / 64 // quick: 64 subsets per kind, always including the empty and the full set
		}
		for m := 0; m < n; m += step {
			jobs = append(jobs, job{k, m})
		}
		if step > 1 {
			jobs = append(jobs, job{k, n - 1})
		}
	}
	mon.Parallel(len(jobs), c.Workers, func(i int) {
		local := map[string]int64{}
		j := jobs[i]
		gc := genCase(c.Seed, "c16.subset", i, j.kind, j.mask, gen.Opts{Simple: true}, "spaced")
		c16Gaps(c, gc, local)
		r.DistinctStr(gc.Text)
		local["statements"]++
		r.MergeCounts(local)
	})
	nrand := c.N(1500, 60000)
	mon.Parallel(nrand, c.Workers, func(i int) {
		local := map[string]int64{}
		layout := "spaced"
		if i%3 == 0 {
			layout = "loose" // also a blank after the dots of segmented names, where few write one
		}
		gc := genCase(c.Seed, "c16.rand", i, -1, -1, gen.Opts{Hostile: i%4 == 0, MaxDepth: 2}, layout)
		c16Gaps(c, gc, local)
		r.DistinctStr(gc.Text)
		local["statements"]++
		if i < 4 {
			r.Sample(map[string]string{"baseline": gc.Text, "edits": "every gap x {tab, LF, CR, CRLF, mixed, two spaces, 6 comment forms}"})
		}
		r.MergeCounts(local)
	})
	// (A) joins
	njoin := c.N(4000, 100000)
	mon.Parallel(njoin, c.Workers, func(i int) {
		local := map[string]int64{}
		c16Join(c, i, local)
		r.MergeCounts(local)
	})
	r.Require(r.Counter("edits.ws") > 0 && r.Counter("edits.comment") > 0 && r.Counter("edits.same-ast") > 0, "no edit observed")
	r.Require(r.Counter("join.ok") > 0 && r.Counter("join.missing-separator-rejected") > 0, "no join observed")
	return rule, false, assume
}

func c16Join(c *Ctx, i int, local map[string]int64) {
	r := c.R
	rg := mon.NewRng(c.Seed, "c16.join", i)
	n := rg.Range(2, 5)
	pool := 1 << 30
	if i%40 == 7 {
		// a long query: whatever a parser accumulates per statement, per call
		// or per token has many statements to accumulate over
		n = []int{65, 100, 257, 700}[rg.Intn(4)]
		pool = 12
		local["join.long-queries"]++
	}
	kindOf := func(j int) int { return -1 }
	if i%40 == 9 {
		// statements that carry lists (key lists, destinations): what one
		// statement's list holds must not depend on the next statement's
		lk := []int{gen.KindIndex("ShowTagKeys"), gen.KindIndex("ShowTagValues"), gen.KindIndex("CreateSubscription"), gen.KindIndex("ShowTagKeys")}
		kindOf = func(j int) int { return lk[j%len(lk)] }
		n = rg.Range(3, 6)
		local["join.list-statements"]++
	}
	if i%200 == 11 {
		// thousands of small statements full of argument-less calls
		n = []int{1200, 3000}[rg.Intn(2)]
		pool = 3
		local["join.very-long-queries"]++
	}
	var texts []string
	var dumps []string
	for j := 0; j < n; j++ {
		gc := genCase(c.Seed, "c16.join.part", i*8+j%pool, kindOf(j), -1, gen.Opts{MaxDepth: 2}, "random")
		if n >= 1200 {
			gc.Text = []string{"SELECT v FROM m WHERE time > now() - 1h AND time < now()", "SELECT mean(v), now() FROM m WHERE time < now() GROUP BY time(1m)", "SHOW TAG KEYS WITH KEY IN (a, b)"}[j%3]
		}
		st, err, pan, _, _ := parseQuery1(gc.Text)
		if pan || err != nil {
			local["join.part-not-accepted(skipped)"]++
			return
		}
		texts = append(texts, gc.Text)
		dumps = append(dumps, dumpOf(st))
	}
	ws := func() string {
		return []string{"", " ", "\n", "\t", "\r\n", "  \n", " -- c\n", " /* c */ ", " -- c\r", "\r"}[rg.Intn(10)]
	}
	var sb strings.Builder
	if rg.P(0.2) {
		sb.WriteString(ws() + ";" + ws())
	}
	for j, t := range texts {
		if j > 0 {
			sb.WriteString(ws() + ";" + ws())
			if rg.P(0.2) {
				sb.WriteString(";" + ws())
			}
		}
		sb.WriteString(t)
	}
	if rg.P(0.5) {
		sb.WriteString(ws() + ";" + ws())
	}
	text := sb.String()
	det := func(why string) map[string]interface{} {
		return map[string]interface{}{"sub": "join", "idx": i, "input": text, "why": why}
	}
	var q *influxql.Query
	var err error
	if p, pv, stk := mon.Try(func() { q, err = influxql.ParseQuery(text) }); p {
		d := det(fmt.Sprint(pv))
		d["stack"] = stk
		r.Violation("panic", d)
		return
	}
	r.Eval(1)
	r.DistinctStr(text)
	if err != nil {
		// a line comment or block comment next to a separator is whitespace
		r.Violation("joined-query-rejected", det(err.Error()))
		return
	}
	if len(q.Statements) != n {
		r.Violation("statement-count", det(fmt.Sprintf("got %d statements, want %d", len(q.Statements), n)))
		return
	}
	for j, st := range q.Statements {
		if d := dumpOf(st); d != dumps[j] {
			r.Violation("statement-differs-from-standalone-parse", det(fmt.Sprintf("statement %d: %s", j, astx.FirstDiff(dumps[j], d))))
			return
		}
	}
	local["join.ok"]++
	// missing separator
	miss := strings.Join(texts, []string{" ", "\n", "\t", "\r\n", " /* c */ "}[rg.Intn(5)])
	var q2 *influxql.Query
	if p, pv, stk := mon.Try(func() { q2, err = influxql.ParseQuery(miss) }); p {
		r.Violation("panic", map[string]interface{}{"sub": "join", "idx": i, "input": miss, "why": fmt.Sprint(pv), "stack": stk})
		return
	}
	r.Eval(1)
	if err == nil {
		r.Violation("missing-separator-accepted", map[string]interface{}{"sub": "join", "idx": i, "input": miss, "why": fmt.Sprintf("statements joined without ';' were accepted as %d statements", len(q2.Statements))})
		return
	}
	local["join.missing-separator-rejected"]++
}
