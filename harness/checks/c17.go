package checks

import (
	"encoding/json"
	"fmt"
	"os"
	"os/exec"
	"path/filepath"
	"regexp"
	"runtime"
	"sort"
	"strconv"
	"strings"
	"sync"
	"sync/atomic"
	"time"

	"github.com/influxdata/influxql"
	"verifharness/gen"
	"verifharness/mon"
)

// C17 — independent parses and read-only use of a shared AST are safe under
// concurrency.
//
// Monitors: the Go race detector (binary built with -race, reports collected
// from GORACE log files of a child process), and a functional oracle: every
// concurrent call's result must equal its sequential twin computed before the
// goroutines start. An overlap matrix records which operation kinds were
// observed in flight together on the same shared AST.

func init() {
	Registry["C17"] = checkC17
	workerKinds["c17"] = c17Worker
}

type c17shared struct {
	text   string
	st     influxql.Statement
	mapper influxql.FieldMapper
}

// frozenMapper is a schema cache: built once before the goroutines start, it
// hands out the very same maps on every call and never writes.
type frozenMapper struct {
	fields map[string]map[string]influxql.DataType
	tags   map[string]map[string]struct{}
}

func (m *frozenMapper) FieldDimensions(mm *influxql.Measurement) (map[string]influxql.DataType, map[string]struct{}, error) {
	f, ok := m.fields[mm.Name]
	if !ok {
		f = m.fields[""]
	}
	d, ok := m.tags[mm.Name]
	if !ok {
		d = m.tags[""]
	}
	return f, d, nil
}

func (m *frozenMapper) MapType(mm *influxql.Measurement, field string) influxql.DataType {
	f, _, _ := m.FieldDimensions(mm)
	if t, ok := f[field]; ok {
		return t
	}
	_, d, _ := m.FieldDimensions(mm)
	if _, ok := d[field]; ok {
		return influxql.Tag
	}
	return influxql.Unknown
}

func newFrozenMapper() *frozenMapper {
	all := func() map[string]influxql.DataType {
		return map[string]influxql.DataType{"f": influxql.Float, "i": influxql.Integer, "u": influxql.Unsigned, "s": influxql.String, "bo": influxql.Boolean, "value": influxql.Float}
	}
	tg := func() map[string]struct{} { return map[string]struct{}{"host": {}, "region": {}} }
	return &frozenMapper{
		fields: map[string]map[string]influxql.DataType{"": all(), "cpu": all(), "mem": all()},
		tags:   map[string]map[string]struct{}{"": tg(), "cpu": tg(), "mem": tg()},
	}
}

// c17Mangle spells a keyword in a letter case derived from uid.
func c17Mangle(word string, uid int64) string {
	b := []byte(strings.ToLower(word))
	for i := range b {
		if b[i] >= 'a' && b[i] <= 'z' && (uid>>(uint(i)%24))&1 == 1 {
			b[i] -= 32
		}
	}
	return string(b)
}

type c17op struct {
	name string
	// run executes the operation; arg selects the input for independent ops.
	run func(sh *c17shared, arg int) string
}

func c17SharedOps() []c17op {
	var ops []c17op
	for _, op := range Ops {
		if op.Mutates {
			continue
		}
		op := op
		if op.Name == "RewriteFields" {
			ops = append(ops, c17op{"shared.RewriteFields", func(sh *c17shared, arg int) string {
				_, _, _, sel := stmtParts(sh.st)
				if sel == nil {
					return ""
				}
				o, err := sel.RewriteFields(sh.mapper)
				if err != nil {
					return err.Error()
				}
				d, derr := o.GroupByInterval()
				return o.String() + fmt.Sprint(o.ColumnNames(), d, derr, dumpOf(o))
			}})
			continue
		}
		ops = append(ops, c17op{"shared." + op.Name, func(sh *c17shared, arg int) string {
			return fmt.Sprint(op.Run(sh.st, mon.NewRng(77, op.Name, arg%4)))
		}})
	}
	return ops
}

// zones of the concurrent time-bound workload, loaded once before any
// goroutine starts
var c17Zones = func() []*time.Location {
	var out []*time.Location
	for _, n := range []string{"America/New_York", "Europe/Berlin", "Asia/Kolkata", "Pacific/Auckland", "America/Sao_Paulo"} {
		if l, err := time.LoadLocation(n); err == nil {
			out = append(out, l)
		}
	}
	if len(out) == 0 {
		out = append(out, time.FixedZone("X", 3600))
	}
	return out
}()

type c17indep struct {
	texts  []string
	params []map[string]interface{}
	strs   []string
	durs   []time.Duration
}

func c17IndepOps(in *c17indep) []c17op {
	return []c17op{
		{"indep.ParseQuery+String", func(_ *c17shared, a int) string {
			q, err := influxql.ParseQuery(in.texts[a%len(in.texts)])
			if err != nil {
				return "ERR " + err.Error()
			}
			return q.String()
		}},
		{"indep.ParseStatement", func(_ *c17shared, a int) string {
			s, err := influxql.ParseStatement(in.texts[a%len(in.texts)])
			if err != nil {
				return "ERR " + err.Error()
			}
			return dumpOf(s)
		}},
		{"indep.ParseExpr", func(_ *c17shared, a int) string {
			e, err := influxql.ParseExpr("a + b * (c - 1) > 0 AND h =~ /" + in.strs[a%len(in.strs)] + "x/")
			if err != nil {
				return "ERR " + err.Error()
			}
			return e.String()
		}},
		{"indep.ParseWithParams", func(_ *c17shared, a int) string {
			p := influxql.NewParser(strings.NewReader("SELECT $f FROM $m WHERE h = $s AND r =~ $re LIMIT $n"))
			p.SetParams(in.params[a%len(in.params)])
			q, err := p.ParseQuery()
			if err != nil {
				return "ERR " + err.Error()
			}
			return q.String()
		}},
		{"indep.Language.Parse", func(_ *c17shared, a int) string {
			p := influxql.NewParser(strings.NewReader(in.texts[a%len(in.texts)]))
			s, err := influxql.Language.Parse(p)
			if err != nil {
				return "ERR " + err.Error()
			}
			return s.String()
		}},
		{"indep.Quote", func(_ *c17shared, a int) string {
			s := in.strs[a%len(in.strs)]
			return influxql.QuoteIdent(s, "rp", s) + influxql.QuoteString(s) + fmt.Sprint(influxql.IdentNeedsQuotes(s))
		}},
		{"indep.Duration", func(_ *c17shared, a int) string {
			d := in.durs[a%len(in.durs)]
			s := influxql.FormatDuration(d)
			b, err := influxql.ParseDuration(s)
			return fmt.Sprint(s, b, err)
		}},
		{"indep.Sanitize", func(_ *c17shared, a int) string {
			return influxql.Sanitize("create user u with password '" + in.strs[a%len(in.strs)] + "'; " + in.texts[a%len(in.texts)])
		}},
		{"indep.ParseErrors", func(_ *c17shared, a int) string {
			// statements that fail at the first dispatch steps, with near-miss
			// keywords: the error (found token, expected list, message, position)
			// is the caller's, also after other parses have failed elsewhere
			texts := []string{"SEL v FROM m", "DEL FROM m", "CREATE DATA x", "SHOW TAG K", "SHOW FIELD", "DROP RET x", "ALTER x", "GRANT", "SHOW GRANTS x", "KILL x", "SET x", "REVOKE ALL x", "CREATE CONTINUOUS x", "SHOW MEASUREMENT x", "EXPLAIN x", "SHOW SHARD x", "CREAT", "SHOW CONT", "DROP", "SHOW"}
			var sb strings.Builder
			var errs []error
			for k := 0; k < 4; k++ {
				_, err := influxql.ParseStatement(texts[(a*4+k)%len(texts)])
				errs = append(errs, err)
			}
			for _, err := range errs {
				// read the first error only after the later ones were made
				if pe, ok := err.(*influxql.ParseError); ok {
					sb.WriteString(fmt.Sprintf("%q %q %v %v|%s\n", pe.Found, pe.Message, pe.Expected, pe.Pos, pe.Error()))
				} else {
					sb.WriteString(fmt.Sprint(err) + "\n")
				}
			}
			return sb.String()
		}},
		{"indep.Language.Clone+customise", func(_ *c17shared, a int) string {
			// an embedding server extends its own copy of the dispatch tree while
			// other goroutines parse with the process-wide one
			cl := influxql.Language.Clone()
			n := customiseLanguage(cl)
			foreignText := []string{"SHOW TAG STATS", "KILL ANY", "SHOW GRANTS ANY", "ALL ANY ALL"}[a%4]
			s1, e1 := cl.Parse(influxql.NewParser(strings.NewReader(foreignText)))
			_, e2 := influxql.ParseStatement(foreignText)
			s3, e3 := influxql.ParseStatement("KILL QUERY 4")
			if e2 == nil {
				return "default Language accepts a statement registered only on a clone: " + foreignText
			}
			return fmt.Sprint(n, dumpOf(s1), e1, e2, dumpOf(s3), e3)
		}},
		{"indep.ScanDelimited-results-kept", func(_ *c17shared, a int) string {
			// the exported scanning helper: what it returns (also together with
			// an error) belongs to the caller, who keeps it across later scans
			esc := map[rune]rune{'/': '/'}
			body := in.strs[a%len(in.strs)] + "[0-9]+"
			part, err1 := influxql.ScanDelimited(strings.NewReader("/"+body), '/', '/', esc, true)
			bad, err2 := influxql.ScanDelimited(strings.NewReader("/a\\qb"+body+"/"), '/', '/', map[rune]rune{'n': '\n'}, false)
			whole, err3 := influxql.ScanDelimited(strings.NewReader("/"+body+"/"), '/', '/', esc, true)
			k1, k2, k3 := string(part), string(bad), string(whole)
			for i := 0; i < 3; i++ {
				_, _ = influxql.ScanDelimited(strings.NewReader("/another_"+strconv.Itoa(a+i)+"_pattern.*/"), '/', '/', esc, true)
				_, _ = influxql.ParseExpr("h =~ /yet_" + strconv.Itoa(a) + "_another/")
			}
			if string(part) != k1 || string(bad) != k2 || string(whole) != k3 {
				return fmt.Sprintf("results changed after later scans: %q %q %q were %q %q %q", part, bad, whole, k1, k2, k3)
			}
			return fmt.Sprint(k1, err1, k2, err2, k3, err3)
		}},
		{"indep.TimeBounds-zoned", func(_ *c17shared, a int) string {
			// time bounds written as strings (RFC3339 with and without fraction
			// and offset, date-time, date only) resolved in a named zone, many
			// different literals and zones in flight at once: through
			// ToTimeLiteral, ConditionExpr with a zone-aware valuer, and a
			// parsed statement with tz() that is reduced and asked for its range
			loc := c17Zones[a%len(c17Zones)]
			base := time.Date(1990+a%40, time.Month(1+a%12), 1+a%28, a%24, (a*7)%60, (a*13)%60, (a%5)*250000000, time.UTC)
			lits := []string{
				base.Format(time.RFC3339Nano),
				base.Add(36 * time.Hour).Format(time.RFC3339),
				base.In(loc).Format(time.RFC3339Nano),
				base.Format("2006-01-02 15:04:05.999999999"),
				base.Add(90 * time.Minute).Format("2006-01-02 15:04:05"),
				base.Format("2006-01-02"),
			}
			var sb strings.Builder
			for _, l := range lits {
				tl, err := (&influxql.StringLiteral{Val: l}).ToTimeLiteral(loc)
				if err != nil {
					sb.WriteString("ERR " + err.Error() + ";")
				} else {
					sb.WriteString(tl.Val.UTC().Format(time.RFC3339Nano) + ";")
				}
			}
			v := &influxql.NowValuer{Now: fixedNow, Location: loc}
			for k := 0; k+1 < len(lits); k++ {
				cond, err := influxql.ParseExpr("time >= '" + lits[k] + "' AND time < '" + lits[k+1] + "' AND host = 'h" + strconv.Itoa(a%7) + "'")
				if err != nil {
					sb.WriteString("ERR " + err.Error())
					continue
				}
				e, tr, err := influxql.ConditionExpr(cond, v)
				sb.WriteString(fmt.Sprint(e, tr.Min.UTC(), tr.Max.UTC(), err, ";"))
			}
			st, err := influxql.ParseStatement("SELECT mean(v) FROM m WHERE time >= '" + lits[a%len(lits)] + "' AND time <= '" + lits[(a+1)%len(lits)] + "' GROUP BY time(1h) TZ('" + loc.String() + "')")
			if err != nil {
				return sb.String() + "ERR " + err.Error()
			}
			sel := st.(*influxql.SelectStatement)
			red := sel.Reduce(v)
			_, tr, err := influxql.ConditionExpr(red.Condition, v)
			sb.WriteString(fmt.Sprint(red.String(), tr.Min.UTC(), tr.Max.UTC(), err))
			return sb.String()
		}},
		{"indep.Lookup", func(_ *c17shared, a int) string {
			return fmt.Sprint(influxql.Lookup(gen.Keywords[a%len(gen.Keywords)]), influxql.Lookup(in.strs[a%len(in.strs)]))
		}},
	}
}

// c17Fresh runs every independent entry point on lexemes no call in this
// process has seen before (names, patterns, literals, durations derived from
// uid), so that anything memoised per value is being filled in while other
// goroutines read it. Results are compared with the same call made alone
// after the concurrent phase.
func c17Fresh(uid int64) string {
	var sb strings.Builder
	text := fmt.Sprintf("SELECT f%[1]d, mean(\"g %[1]d\") FROM db%[1]d.rp%[1]d./^m%[1]d.*/ WHERE h%[1]d =~ /^(a|b)%[1]d$/ AND s != 's%[1]d' AND time > now() - %[2]dns GROUP BY time(%[2]dms), /t%[1]d/ TZ('UTC'); SHOW TAG VALUES FROM m%[1]d WITH KEY =~ /k%[1]d/; CREATE USER u%[1]d WITH PASSWORD 'pw%[1]d'", uid, uid+1)
	// keywords in a letter case this process has not seen
	for _, kw := range []string{"SELECT", "FROM", "WHERE", "AND", "GROUP BY", "SHOW TAG VALUES", "WITH KEY", "CREATE USER", "WITH PASSWORD", "MEASUREMENTS"} {
		text = strings.Replace(text, kw, c17Mangle(kw, uid*2654435761+int64(len(kw))), -1)
	}
	mk := c17Mangle("retention", uid*40503)
	sb.WriteString(fmt.Sprint(influxql.Lookup(mk), influxql.IdentNeedsQuotes(mk), influxql.QuoteIdent(mk)))
	q, err := influxql.ParseQuery(text)
	if err != nil {
		sb.WriteString("ERR " + err.Error())
	} else {
		sb.WriteString(q.String())
		if sel, ok := q.Statements[0].(*influxql.SelectStatement); ok {
			sb.WriteString(fmt.Sprint(sel.ColumnNames()))
			pr, _ := sel.RequiredPrivileges()
			sb.WriteString(fmt.Sprint(pr))
			sb.WriteString(sel.Clone().String())
		}
	}
	e, err := influxql.ParseExpr(fmt.Sprintf("a%[1]d + %[1]d * (c - %[1]d.5) > 0 AND h =~ /x%[1]d/ OR d = %[1]dh", uid))
	sb.WriteString(fmt.Sprint(e, err))
	d := time.Duration(uid*7919 + 1)
	fs := influxql.FormatDuration(d)
	pd, err := influxql.ParseDuration(fs)
	sb.WriteString(fmt.Sprint(fs, pd, err))
	name := fmt.Sprintf("n %d\"q", uid)
	sb.WriteString(influxql.QuoteIdent(name, fmt.Sprintf("rp%d", uid)) + influxql.QuoteString(name) + fmt.Sprint(influxql.IdentNeedsQuotes(name), influxql.Lookup(fmt.Sprintf("kw%d", uid))))
	sb.WriteString(influxql.Sanitize(fmt.Sprintf("set password for u%[1]d = 'secret%[1]d'", uid)))
	return sb.String()
}

type c17freshRec struct {
	uid int64
	got string
}

type c17result struct {
	OpCounts   map[string]int64 `json:"op_counts"`
	Mismatches []string         `json:"mismatches"`
	NMismatch  int64            `json:"nmismatch"`
	Overlap    map[string]int64 `json:"overlap"` // "opA|opB" -> observations of both in flight on one AST
	Missing    []string         `json:"missing_overlaps"`
	Rounds     int              `json:"rounds"`
	Goroutines int              `json:"goroutines"`
	Samples    []string         `json:"samples"`
	Panics     []string         `json:"panics"`
	Done       bool             `json:"done"`
	Cases      []uint64         `json:"cases"` // hashes of distinct (operation, input) pairs whose twin was computed
}

func c17Worker(args []string) int {
	seed, _ := strconv.ParseInt(args[0], 10, 64)
	tier := args[1]
	out := args[2]
	runtime.GOMAXPROCS(16)
	rounds, ngor, nops := 5, 64, 400
	if tier == "thorough" {
		rounds, ngor, nops = 120, 64, 600
	}
	res := &c17result{OpCounts: map[string]int64{}, Overlap: map[string]int64{}, Rounds: rounds, Goroutines: ngor}
	// calls made alone before anything else has run in this process, and made
	// again at the very end: near-miss spellings of what the workload uses
	// (zone names, keywords and function names in another letter case)
	probes := []string{
		"SELECT v FROM m TZ('america/new_york')", "SELECT v FROM m TZ('AMERICA/NEW_YORK')", "SELECT v FROM m TZ('asia/kolkata')", "SELECT v FROM m TZ('utc')", "SELECT v FROM m TZ('europe/berlin')", "SELECT v FROM m TZ('Europe/berlin')",
		"SELECT MEAN(v), Mean(w), hOLT_wINTERS(x, 1, 2) FROM m", "sElEcT v fRoM m wHeRe tImE > nOw()", "SELECT v FROM m WHERE h =~ /(?i)Cpu.*/", "SHOW tag KEYS with KEY in (A, a)",
	}
	probe := func() []string {
		var out []string
		for _, t := range probes {
			q, err := influxql.ParseQuery(t)
			if err != nil {
				out = append(out, "ERR "+err.Error())
			} else {
				out = append(out, dumpOf(q))
			}
		}
		for _, w := range []string{"Retention", "rETENTION", "dISTINCT", "nOw", "TiMe"} {
			out = append(out, fmt.Sprint(influxql.Lookup(w), influxql.IdentNeedsQuotes(w), influxql.QuoteIdent(w)))
		}
		return out
	}
	probe0 := probe()
	sharedOps := c17SharedOps()
	nso := len(sharedOps)
	overlap := make([]int64, nso*nso)
	var nmis int64
	var mu sync.Mutex
	for round := 0; round < rounds; round++ {
		// shared ASTs and independent inputs of this round, built by the main goroutine
		const K = 10
		frozen := newFrozenMapper()
		var shared []*c17shared
		for k := 0; len(shared) < K; k++ {
			kind := gen.KindIndex([]string{"Select", "Select", "Explain", "CreateContinuousQuery"}[k%4])
			if k == 5 {
				kind = -1 // any statement kind (SHOW, DROP, ... with conditions and sources)
			}
			if k >= 6 {
				kind = gen.KindIndex("Select")
			}
			gc := genCase(seed, "c17.shared", round*64+k, kind, -1, gen.Opts{SubqDepth: 2, SubqProb: 0.3, MaxDepth: 2}, "spaced")
			st, err := influxql.ParseStatement(gc.Text)
			if err != nil {
				continue
			}
			if k < 2 {
				// fixed shapes with parenthesised untyped references, wildcards and regex conditions
				txt := []string{"SELECT (value) * 2, *, mean(/us.*/) FROM cpu, (SELECT (v + 1) AS value FROM mem WHERE (w > 1)) WHERE (host = 'a' OR value > 10) AND region =~ /^(us|eu)$/ AND time > now() - 1h GROUP BY *, time(1m)",
					"SELECT top(value, host, 3), (a + b) / 2 AS avg FROM db.rp.cpu WHERE (a > 1 AND (b < 2 OR c = 'x')) GROUP BY /h.*/ fill(3.5) TZ('America/New_York')"}[k]
				st, _ = influxql.ParseStatement(txt)
				gc.Text = txt
			}
			if k >= 6 {
				// one wildcard / regex call of every function class RewriteFields
				// distinguishes, in separate statements whose twins are computed in a
				// round-dependent order: the numeric class before and after the
				// narrower holt_winters class, over all five field types
				txt := [][]string{
					{"SELECT mean(*), sum(/./), derivative(mean(*), 1m), percentile(*, 90) FROM cpu GROUP BY time(1m), *",
						"SELECT holt_winters(*, 10, 2), holt_winters_with_fit(/./, 10, 2), max(*), count(/./), distinct(*) FROM cpu GROUP BY time(1m)"},
					{"SELECT holt_winters_with_fit(*, 3, 1), min(/./), first(*), sample(*, 2), mode(/u|s/) FROM cpu, mem GROUP BY time(5m), host",
						"SELECT median(*), stddev(/./), spread(*), moving_average(mean(*), 3), top(/./, 2), elapsed(*) FROM cpu GROUP BY time(1m)"},
				}[round%2][(k-6)%2]
				if k >= 8 {
					// a field wildcard grouped by a plain tag over one measurement, the
					// shape in which expansion edits the tag set it got from the schema
					txt = []string{"SELECT * FROM cpu GROUP BY host", "SELECT *, mean(*) FROM mem GROUP BY region, time(1m)"}[k%2]
				}
				st, _ = influxql.ParseStatement(txt)
				gc.Text = txt
			}
			if (round+k)%2 == 1 {
				// built as a program builds it by hand: INTO targets without the
				// flag the parser sets on them
				influxql.WalkFunc(st, func(n influxql.Node) {
					if s, ok := n.(*influxql.SelectStatement); ok && s.Target != nil && s.Target.Measurement != nil {
						s.Target.Measurement.IsTarget = false
						res.OpCounts["shared.hand-built-targets-without-flag"]++
					}
				})
			}
			sh := &c17shared{text: gc.Text, st: st}
			tm := randomMapper(mon.NewRng(seed, "c17.mapper", round*64+k), append(refNames(st), "value", "host", "a", "b", "v", "w", "region"))
			for _, n := range []string{"value", "a", "b", "v", "w"} {
				tm.fields[""][n] = influxql.Float
			}
			tm.tags[""] = append(tm.tags[""], "host", "region")
			if k >= 6 {
				for n, t := range map[string]influxql.DataType{"f": influxql.Float, "i": influxql.Integer, "u": influxql.Unsigned, "s": influxql.String, "bo": influxql.Boolean} {
					tm.fields[""][n] = t
				}
			}
			sh.mapper = tm
			if k >= 7 {
				sh.mapper = frozen // one schema cache shared by several statements and all goroutines
			}
			shared = append(shared, sh)
		}
		in := &c17indep{}
		for j := 0; j < 24; j++ {
			gc := genCase(seed, "c17.indep", round*64+j, -1, -1, gen.Opts{MaxDepth: 2, Hostile: j%3 == 0}, "random")
			in.texts = append(in.texts, gc.Text)
			in.strs = append(in.strs, []string{"a", "my db", `q"t`, "x'y", "select", "é", "b\\s", "nl\nx"}[j%8]+strconv.Itoa(j))
			in.durs = append(in.durs, time.Duration(j+1)*[]time.Duration{1, time.Second, time.Hour, 36 * time.Hour}[j%4])
			in.params = append(in.params, map[string]interface{}{"f": map[string]interface{}{"identifier": "f" + strconv.Itoa(j)}, "m": map[string]interface{}{"identifier": "m" + strconv.Itoa(j)}, "s": "s'" + strconv.Itoa(j), "re": map[string]interface{}{"regex": "^r" + strconv.Itoa(j)}, "n": int64(j + 1)})
		}
		indepOps := c17IndepOps(in)
		// sequential twins
		twin := map[string]string{}
		key := func(o string, k, a int) string { return o + "#" + strconv.Itoa(k) + "#" + strconv.Itoa(a) }
		for oi, op := range sharedOps {
			for k, sh := range shared {
				for a := 0; a < 4; a++ {
					func() {
						defer func() {
							if v := recover(); v != nil {
								twin[key(op.name, k, a)] = fmt.Sprint("PANIC ", v)
							}
						}()
						twin[key(op.name, k, a)] = op.run(sh, a)
					}()
					res.Cases = append(res.Cases, mon.Hash64(op.name+"|"+sh.text+"|"+strconv.Itoa(a)))
				}
			}
			_ = oi
		}
		for _, op := range indepOps {
			for a := 0; a < 24; a++ {
				twin[key(op.name, 0, a)] = op.run(nil, a)
				if strings.HasPrefix(twin[key(op.name, 0, a)], "default Language accepts") && atomic.AddInt64(&nmis, 1) <= 10 {
					res.Mismatches = append(res.Mismatches, twin[key(op.name, 0, a)])
				}
				res.Cases = append(res.Cases, mon.Hash64(op.name+"|"+in.texts[a]+"|"+in.strs[a]))
			}
		}
		if round == 0 {
			res.Samples = append(res.Samples, shared[0].text, in.texts[0])
		}
		// concurrent phase
		inflight := make([]int64, K)
		var start sync.WaitGroup
		start.Add(1)
		var wg sync.WaitGroup
		counts := make([]map[string]int64, ngor)
		fresh := make([][]c17freshRec, ngor)
		for g := 0; g < ngor; g++ {
			wg.Add(1)
			counts[g] = map[string]int64{}
			go func(g int) {
				defer wg.Done()
				rg := mon.NewRng(seed, "c17.sched", round*1000+g)
				start.Wait()
				for n := 0; n < nops; n++ {
					if n%16 == 5 {
						uid := int64(round)*10000000 + int64(g)*100000 + int64(n)
						var got string
						func() {
							defer func() {
								if v := recover(); v != nil {
									got = fmt.Sprint("PANIC ", v)
								}
							}()
							got = c17Fresh(uid)
						}()
						fresh[g] = append(fresh[g], c17freshRec{uid, got})
						counts[g]["indep.fresh-lexemes"]++
						continue
					}
					if rg.P(0.7) {
						oi := rg.Intn(nso)
						k := rg.Intn(K)
						a := rg.Intn(4)
						op := sharedOps[oi]
						// in-flight bookkeeping for the overlap matrix
						bit := int64(1) << uint(oi)
						var old int64
						for {
							old = atomic.LoadInt64(&inflight[k])
							if atomic.CompareAndSwapInt64(&inflight[k], old, old|bit) {
								break
							}
						}
						for o2 := 0; o2 < nso; o2++ {
							if old&(int64(1)<<uint(o2)) != 0 {
								atomic.AddInt64(&overlap[oi*nso+o2], 1)
							}
						}
						var got string
						func() {
							defer func() {
								if v := recover(); v != nil {
									got = fmt.Sprint("PANIC ", v)
								}
							}()
							got = op.run(shared[k], a)
						}()
						// several goroutines may run the same op on the same AST: the bit is cleared
						// by whoever finishes (under-approximates overlap, never over-approximates)
						for {
							old = atomic.LoadInt64(&inflight[k])
							if atomic.CompareAndSwapInt64(&inflight[k], old, old&^bit) {
								break
							}
						}
						counts[g][op.name]++
						if want := twin[key(op.name, k, a)]; got != want {
							if atomic.AddInt64(&nmis, 1) <= 10 {
								mu.Lock()
								res.Mismatches = append(res.Mismatches, fmt.Sprintf("%s on shared AST %q: concurrent result %q differs from sequential twin %q", op.name, trunc(shared[k].text, 300), trunc(got, 300), trunc(want, 300)))
								mu.Unlock()
							}
						}
					} else {
						op := indepOps[rg.Intn(len(indepOps))]
						if strings.HasPrefix(op.name, "indep.Language.Clone") && !rg.P(0.15) {
							op = indepOps[rg.Intn(4)] // the tree copy is costly under the race detector: run it less often
						}
						a := rg.Intn(24)
						got := op.run(nil, a)
						counts[g][op.name]++
						if want := twin[key(op.name, 0, a)]; got != want {
							if atomic.AddInt64(&nmis, 1) <= 10 {
								mu.Lock()
								res.Mismatches = append(res.Mismatches, fmt.Sprintf("%s (input %d): concurrent result %q differs from sequential twin %q", op.name, a, trunc(got, 300), trunc(want, 300)))
								mu.Unlock()
							}
						}
					}
				}
			}(g)
		}
		start.Done()
		wg.Wait()
		// every call made alone again, after the storm: a result that now differs
		// from the one computed before it depends on what other calls did (a
		// memo, cache or shared table written by an operation that should only read)
		for _, op := range sharedOps {
			for k, sh := range shared {
				for a := 0; a < 4; a++ {
					var got string
					func() {
						defer func() {
							if v := recover(); v != nil {
								got = fmt.Sprint("PANIC ", v)
							}
						}()
						got = op.run(sh, a)
					}()
					res.OpCounts["after."+op.name]++
					if want := twin[key(op.name, k, a)]; got != want {
						if atomic.AddInt64(&nmis, 1) <= 10 {
							res.Mismatches = append(res.Mismatches, fmt.Sprintf("%s on shared AST %q: the call made alone after the concurrent phase returns %q, before it returned %q", op.name, trunc(sh.text, 300), trunc(got, 300), trunc(want, 300)))
						}
					}
				}
			}
		}
		for _, recs := range fresh {
			for _, fr := range recs {
				want := c17Fresh(fr.uid)
				res.OpCounts["after.indep.fresh-lexemes"]++
				res.Cases = append(res.Cases, mon.Hash64("fresh|"+strconv.FormatInt(fr.uid, 10)))
				if fr.got != want {
					if atomic.AddInt64(&nmis, 1) <= 10 {
						res.Mismatches = append(res.Mismatches, fmt.Sprintf("fresh-lexeme calls (uid %d): concurrent result %q differs from the same calls made alone afterwards %q", fr.uid, trunc(fr.got, 300), trunc(want, 300)))
					}
				}
			}
		}
		for _, op := range indepOps {
			for a := 0; a < 24; a++ {
				got := op.run(nil, a)
				res.OpCounts["after."+op.name]++
				if want := twin[key(op.name, 0, a)]; got != want {
					if atomic.AddInt64(&nmis, 1) <= 10 {
						res.Mismatches = append(res.Mismatches, fmt.Sprintf("%s (input %d): the call made alone after the concurrent phase returns %q, before it returned %q", op.name, a, trunc(got, 300), trunc(want, 300)))
					}
				}
			}
		}
		for _, cm := range counts {
			for k, v := range cm {
				res.OpCounts[k] += v
			}
		}
	}
	for i, p1 := range probe() {
		if p1 != probe0[i] {
			nmis++
			what := "keyword helpers"
			if i < len(probes) {
				what = probes[i]
			}
			res.Mismatches = append(res.Mismatches, fmt.Sprintf("%s: made alone at process start the call returned %q, at the end of the run %q", what, trunc(probe0[i], 300), trunc(p1, 300)))
		}
		res.OpCounts["history-probes"]++
	}
	res.NMismatch = nmis
	for i := 0; i < nso; i++ {
		for j := 0; j < nso; j++ {
			if i <= j {
				n := overlap[i*nso+j] + overlap[j*nso+i]
				if i == j {
					n = overlap[i*nso+j]
				}
				res.Overlap[sharedOps[i].name+"|"+sharedOps[j].name] = n
				if n == 0 && i != j {
					res.Missing = append(res.Missing, sharedOps[i].name+"|"+sharedOps[j].name)
				}
			}
		}
	}
	res.Done = true
	b, _ := json.Marshal(res)
	if err := os.WriteFile(out, b, 0o644); err != nil {
		return 3
	}
	return 0
}

var raceFrameRe = regexp.MustCompile(`(?m)^\s+(\S+)\(\)\s*$`)

func checkC17(c *Ctx) (string, bool, []string) {
	r := c.R
	rule := "rounds of 64 goroutines (GOMAXPROCS 16) released together, each running a PRNG-ordered list of operations: 70% on 6 shared ASTs parsed once by the main goroutine (String, Clone, WalkFunc, Eval, EvalType, Reduce, ConditionExpr, RewriteFields against a shared mapper, ColumnNames, field names, privileges, measurements, expression helpers), 30% independent (ParseQuery / ParseStatement / ParseExpr / Language.Parse, parsing with parameters, QuoteIdent / QuoteString / IdentNeedsQuotes, FormatDuration / ParseDuration, Sanitize, Lookup, string time bounds of every spelling resolved in five named zones through ToTimeLiteral / ConditionExpr / a reduced statement with tz()). The binary is built with -race; every result is compared with its sequential twin. Non-trivial = every executed operation; distinct = (operation, input) pairs with a sequential twin."
	assume := []string{"GroupByInterval / GroupByOffset (memo write) and all in-place rewrites are excluded by the property itself", "the race detector reports accesses unordered by happens-before in the observed runs; interleavings actually observed are summarised by the overlap matrix"}
	if c.Replay != nil {
		r.Inconclusive("C17 findings are schedules; re-run ./check C17 quick (the replay file holds the race report or mismatch)")
		return rule, false, assume
	}
	if !raceEnabled {
		r.Inconclusive("binary was not built with -race (./check builds C17 with -race)")
		return rule, false, assume
	}
	bin := os.Getenv("VCHECK_BIN")
	if bin == "" {
		bin, _ = os.Executable()
	}
	tmp, err := os.MkdirTemp(filepath.Join(mon.VerifDir, "harness", "bin"), "c17-")
	if err != nil {
		r.Inconclusive("cannot create scratch directory")
		return rule, false, assume
	}
	defer os.RemoveAll(tmp)
	// First use: fresh processes (a binary that imports nothing but the
	// library) whose first calls into it are made by 24 goroutines released
	// together, under the race detector; each result is compared with the same
	// call made alone afterwards.
	if fb := os.Getenv("VFIRST_BIN"); fb == "" {
		r.Inconclusive("VFIRST_BIN is not set (./check builds harness/cmd/vfirst with -race for C17)")
		return rule, false, assume
	} else {
		nproc := c.N(12, 120)
		for k := 0; k < nproc; k++ {
			fc := exec.Command(fb, strconv.Itoa(k+int(c.Seed%7)))
			fc.Env = append(os.Environ(), "GORACE=halt_on_error=0 history_size=2", "GOMAXPROCS=16")
			outb, ferr := fc.CombinedOutput()
			text := string(outb)
			r.Eval(1)
			switch {
			case strings.Contains(text, "WARNING: DATA RACE"):
				fr := raceFrameRe.FindAllStringSubmatch(text, -1)
				var outer []string
				for _, f := range fr {
					if strings.Contains(f[1], "influxql") && len(outer) < 6 {
						outer = append(outer, f[1])
					}
				}
				r.Violation("data-race", map[string]interface{}{"why": "race detector report in a process whose first library calls are concurrent: " + strings.Join(outer, " <- "), "report": trunc(text, 6000)})
			case strings.Contains(text, "MISMATCH"):
				r.Violation("result-differs-from-call-made-alone", map[string]interface{}{"why": "first concurrent use: " + trunc(text[strings.Index(text, "MISMATCH"):], 600), "report": trunc(text, 6000)})
			case ferr != nil || !strings.Contains(text, "FIRSTUSE calls="):
				r.Violation("process-fatal-under-concurrency", map[string]interface{}{"why": fmt.Sprintf("first-use process died: %v", ferr), "stderr": trunc(text, 6000)})
			default:
				r.Count("first-use.processes-clean", 1)
				continue
			}
			break
		}
		r.Count("first-use.processes", int64(nproc))
	}
	out := filepath.Join(tmp, "out.json")
	cmd := exec.Command(bin, "--worker", "c17", strconv.FormatInt(c.Seed, 10), c.Tier, out)
	cmd.Env = append(os.Environ(), "GORACE=halt_on_error=0 history_size=3 log_path="+filepath.Join(tmp, "race"))
	se, _ := os.Create(filepath.Join(tmp, "stderr"))
	cmd.Stderr, cmd.Stdout = se, se
	done := make(chan error, 1)
	if err := cmd.Start(); err != nil {
		r.Inconclusive("cannot start worker")
		return rule, false, assume
	}
	go func() { done <- cmd.Wait() }()
	wd := 20 * time.Minute
	if c.Thorough() {
		wd = 120 * time.Minute
	}
	var werr error
	select {
	case werr = <-done:
	case <-time.After(wd):
		_ = cmd.Process.Kill()
		<-done
		r.Inconclusive("worker exceeded the wall-clock watchdog")
		return rule, false, assume
	}
	se.Close()
	var res c17result
	if b, e := os.ReadFile(out); e == nil {
		_ = json.Unmarshal(b, &res)
	}
	stderr, _ := os.ReadFile(filepath.Join(tmp, "stderr"))
	if !res.Done {
		tail := string(stderr)
		if len(tail) > 4000 {
			tail = tail[len(tail)-4000:]
		}
		r.Violation("process-fatal-under-concurrency", map[string]interface{}{"why": fmt.Sprintf("worker died: %v", werr), "stderr": tail})
		return rule, false, assume
	}
	// race reports
	logs, _ := filepath.Glob(filepath.Join(tmp, "race*"))
	nreports := 0
	dedup := map[string]string{}
	for _, lf := range logs {
		b, _ := os.ReadFile(lf)
		for _, blk := range strings.Split(string(b), "==================") {
			if !strings.Contains(blk, "WARNING: DATA RACE") {
				continue
			}
			nreports++
			fr := raceFrameRe.FindAllStringSubmatch(blk, -1)
			var outer []string
			for _, f := range fr {
				if strings.Contains(f[1], "influxql") || strings.Contains(f[1], "verifharness") {
					outer = append(outer, f[1])
				}
			}
			k := strings.Join(outer, " <- ")
			if len(k) > 600 {
				k = k[:600]
			}
			if _, ok := dedup[k]; !ok {
				dedup[k] = blk
			}
		}
	}
	keys := make([]string, 0, len(dedup))
	for k := range dedup {
		keys = append(keys, k)
	}
	sort.Strings(keys)
	for _, k := range keys {
		blk := dedup[k]
		if !strings.Contains(blk, "github.com/influxdata/influxql") {
			r.Inconclusive("race report whose stacks lie wholly in harness code (harness bug): " + trunc(k, 200))
			continue
		}
		if len(blk) > 5000 {
			blk = blk[:5000]
		}
		r.Violation("data-race", map[string]interface{}{"why": "race detector report involving influxql frames: " + trunc(k, 400), "report": blk})
	}
	for _, m := range res.Mismatches {
		r.Violation("concurrent-result-differs-from-sequential", map[string]interface{}{"why": m})
	}
	total := int64(0)
	for k, v := range res.OpCounts {
		r.Count("ops."+k, v)
		total += v
	}
	for _, h := range res.Cases {
		r.Distinct(h)
	}
	r.Eval(int(total))
	r.Count("race-reports", int64(nreports))
	r.Count("race-reports-distinct", int64(len(dedup)))
	r.Count("mismatches", res.NMismatch)
	observedPairs := 0
	for _, v := range res.Overlap {
		if v > 0 {
			observedPairs++
		}
	}
	r.Count("overlap.pairs-observed", int64(observedPairs))
	r.Count("overlap.pairs-possible", int64(len(res.Overlap)))
	r.SetExtra("overlap_matrix", res.Overlap)
	r.SetExtra("rounds", res.Rounds)
	r.SetExtra("goroutines_per_round", res.Goroutines)
	for _, s := range res.Samples {
		r.Sample(map[string]string{"input": s})
	}
	r.Require(len(res.Missing) == 0, fmt.Sprintf("%d operation pairs were never observed in flight together on a shared AST, e.g. %v", len(res.Missing), firstN(res.Missing, 3)))
	r.Require(total > 0, "no operation executed")
	return rule, false, assume
}

func firstN(a []string, n int) []string {
	if len(a) > n {
		return a[:n]
	}
	return a
}
