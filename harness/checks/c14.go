package checks

import (
	"fmt"
	"reflect"
	"regexp"
	"sync/atomic"
	"time"

	"github.com/influxdata/influxql"
	"verifharness/astx"
	"verifharness/gen"
	"verifharness/mon"
)

// C14 — clones are faithful and independent; derived operations leave the
// receiver alone.
//
// Monitors: (1) structural comparison of clone and original; (2) aliasing
// monitor: a reflective walk over both graphs looking for a shared
// pointer-to-struct, slice backing array or map (immutable library objects
// *regexp.Regexp and *time.Location are allowed); (3) history monitor: after
// every in-place operation or reflective poke applied to one side, the other
// side's dump must still equal its snapshot; (4) receiver-unchanged monitor
// around derived operations.

func init() { Registry["C14"] = checkC14 }

var (
	regexpPT = reflect.TypeOf((*regexp.Regexp)(nil))
	locPT    = reflect.TypeOf((*time.Location)(nil))
)

// addrs collects the identity of every mutable node reachable from v.
func addrs(v reflect.Value, out map[uintptr]string, path string, depth int) {
	if !v.IsValid() || depth > 10000 {
		return
	}
	switch v.Kind() {
	case reflect.Interface:
		if !v.IsNil() {
			addrs(v.Elem(), out, path, depth+1)
		}
	case reflect.Ptr:
		if v.IsNil() || v.Type() == regexpPT || v.Type() == locPT {
			return
		}
		if v.Elem().Kind() == reflect.Struct && v.Elem().NumField() == 0 {
			return // zero-size structs may legitimately share an address
		}
		out[v.Pointer()] = path + "<" + v.Type().String() + ">"
		addrs(v.Elem(), out, path, depth+1)
	case reflect.Struct:
		if v.Type() == reflect.TypeOf(time.Time{}) {
			return
		}
		for i := 0; i < v.NumField(); i++ {
			if v.Type().Field(i).PkgPath == "" {
				addrs(v.Field(i), out, path+"."+v.Type().Field(i).Name, depth+1)
			}
		}
	case reflect.Slice:
		if v.Len() > 0 {
			out[v.Pointer()] = path + "[]backing-array"
		}
		for i := 0; i < v.Len(); i++ {
			addrs(v.Index(i), out, fmt.Sprintf("%s[%d]", path, i), depth+1)
		}
	case reflect.Map:
		if v.Len() > 0 {
			out[v.Pointer()] = path + "(map)"
		}
	}
}

func sharedNode(a, b interface{}) string {
	ma, mb := map[uintptr]string{}, map[uintptr]string{}
	addrs(reflect.ValueOf(a), ma, "$", 0)
	addrs(reflect.ValueOf(b), mb, "$", 0)
	for p, pa := range ma {
		if pb, ok := mb[p]; ok {
			return pa + " is the same object as " + pb
		}
	}
	return ""
}

// poke overwrites every reachable string / number / bool and the first
// element of every slice of the graph (in place).
func poke(v reflect.Value, depth int, n *int) {
	if !v.IsValid() || depth > 10000 {
		return
	}
	switch v.Kind() {
	case reflect.Interface:
		if !v.IsNil() {
			e := v.Elem()
			if e.Kind() == reflect.Ptr {
				poke(e, depth+1, n)
			}
		}
	case reflect.Ptr:
		if v.IsNil() || v.Type() == regexpPT || v.Type() == locPT {
			return
		}
		poke(v.Elem(), depth+1, n)
	case reflect.Struct:
		if v.Type() == reflect.TypeOf(time.Time{}) {
			if v.CanSet() {
				v.Set(reflect.ValueOf(v.Interface().(time.Time).Add(time.Hour)))
				*n++
			}
			return
		}
		for i := 0; i < v.NumField(); i++ {
			if v.Type().Field(i).PkgPath == "" {
				poke(v.Field(i), depth+1, n)
			}
		}
	case reflect.Slice:
		for i := 0; i < v.Len(); i++ {
			poke(v.Index(i), depth+1, n)
		}
		if v.Len() > 1 && v.Index(0).CanSet() {
			// overwrite a slot of the backing array
			v.Index(0).Set(v.Index(v.Len() - 1))
			*n++
		}
	case reflect.String:
		if v.CanSet() {
			v.SetString(v.String() + "~poked")
			*n++
		}
	case reflect.Int, reflect.Int64, reflect.Int32:
		if v.CanSet() {
			v.SetInt(v.Int() + 17)
			*n++
		}
	case reflect.Uint64, reflect.Uint:
		if v.CanSet() {
			v.SetUint(v.Uint() + 17)
			*n++
		}
	case reflect.Float64:
		if v.CanSet() {
			v.SetFloat(v.Float() + 1.5)
			*n++
		}
	case reflect.Bool:
		if v.CanSet() {
			v.SetBool(!v.Bool())
			*n++
		}
	}
}

type mutRewriter struct{}

func (mutRewriter) Rewrite(n influxql.Node) influxql.Node {
	switch n := n.(type) {
	case *influxql.VarRef:
		return &influxql.VarRef{Val: n.Val + "_rw", Type: n.Type}
	case *influxql.IntegerLiteral:
		n.Val++
	case *influxql.StringLiteral:
		n.Val += "_rw"
	case *influxql.Call:
		n.Name += "_rw"
	}
	return n
}

var c14appendSeq int64
var c14appendRe = regexp.MustCompile(`appended_[fdsm][0-9]+`)

type c14mut struct {
	name string
	run  func(s *influxql.SelectStatement)
}

var c14muts = []c14mut{
	{"RewriteRegexConditions", func(s *influxql.SelectStatement) { s.RewriteRegexConditions() }},
	{"RewriteDistinct", func(s *influxql.SelectStatement) { s.RewriteDistinct() }},
	{"RewriteTimeFields", func(s *influxql.SelectStatement) { s.RewriteTimeFields() }},
	{"SetTimeRange", func(s *influxql.SelectStatement) { _ = s.SetTimeRange(fixedNow.Add(-time.Hour), fixedNow) }},
	{"Rewrite(mutating)", func(s *influxql.SelectStatement) { influxql.Rewrite(mutRewriter{}, s) }},
	{"RewriteExpr(mutating)", func(s *influxql.SelectStatement) {
		s.Condition = influxql.RewriteExpr(s.Condition, func(e influxql.Expr) influxql.Expr {
			if v, ok := e.(*influxql.VarRef); ok {
				v.Val += "_re"
			}
			return e
		})
		for _, f := range s.Fields {
			f.Expr = influxql.RewriteExpr(f.Expr, func(e influxql.Expr) influxql.Expr {
				if v, ok := e.(*influxql.VarRef); ok {
					v.Val += "_re"
				}
				return e
			})
		}
	}},
	{"poke", func(s *influxql.SelectStatement) { n := 0; poke(reflect.ValueOf(s), 0, &n) }},
	// a caller empties the statement's lists in place (they keep their capacity) ...
	{"truncate-lists", func(s *influxql.SelectStatement) {
		s.Fields, s.Dimensions, s.SortFields, s.Sources = s.Fields[:0], s.Dimensions[:0], s.SortFields[:0], s.Sources[:0]
	}},
	// ... or appends to them; every appended element has a name of its own
	{"append-to-lists", func(s *influxql.SelectStatement) {
		n := fmt.Sprint(atomic.AddInt64(&c14appendSeq, 1))
		s.Fields = append(s.Fields, &influxql.Field{Expr: &influxql.VarRef{Val: "appended_f" + n}})
		s.Dimensions = append(s.Dimensions, &influxql.Dimension{Expr: &influxql.VarRef{Val: "appended_d" + n}})
		s.SortFields = append(s.SortFields, &influxql.SortField{Name: "appended_s" + n})
		s.Sources = append(s.Sources, &influxql.Measurement{Name: "appended_m" + n})
	}},
	// not a rewrite, but a query that keeps a memo on the statement
	{"GroupByInterval+Offset", func(s *influxql.SelectStatement) { _, _ = s.GroupByInterval(); _, _ = s.GroupByOffset() }},
}

func c14mutNamed(name string) c14mut {
	for _, m := range c14muts {
		if m.name == name {
			return m
		}
	}
	panic("harness: no mutation " + name)
}

// c14Obs is what an observer sees of a statement: its structure and the
// answers of the queries that keep memos on it.
func c14Obs(s *influxql.SelectStatement) string {
	out := dumpOf(s)
	mon.Try(func() {
		d, err := s.GroupByInterval()
		out += fmt.Sprint("|interval=", d, err)
	})
	return out
}

func c14One(c *Ctx, text string, idx int, local map[string]int64) {
	r := c.R
	st, err, pan, _, _ := parseQuery1(text)
	if pan || err != nil {
		local["not-accepted(skipped)"]++
		return
	}
	_, _, _, sel := stmtParts(st)
	if sel == nil {
		return
	}
	rg := mon.NewRng(c.Seed, "c14.ops", idx)
	det := func(why string) map[string]interface{} {
		return map[string]interface{}{"input": text, "idx": idx, "why": why}
	}
	r.Eval(1)
	local["statements"]++
	if idx%3 == 1 {
		// as a program builds it by hand: INTO targets without the flag the
		// parser sets on them (at any depth)
		influxql.WalkFunc(st, func(n influxql.Node) {
			if s, ok := n.(*influxql.SelectStatement); ok && s.Target != nil && s.Target.Measurement != nil && s.Target.Measurement.IsTarget {
				s.Target.Measurement.IsTarget = false
				local["hand-built-targets-without-flag"]++
			}
		})
	}
	// (1) + (2): faithful and unshared
	var clone *influxql.SelectStatement
	if p, pv, stk := mon.Try(func() { clone = sel.Clone() }); p {
		d := det(fmt.Sprint(pv))
		d["stack"] = stk
		r.Violation("panic-in-Clone", d)
		return
	}
	do, dc := dumpOf(sel), dumpOf(clone)
	if do != dc {
		if key := c14Known(astx.DiffPath(do, dc)); key != "" && r.Known(key, text) {
			local["known."+key]++
		} else {
			r.Violation("clone-differs", det("Clone() is not structurally identical: "+astx.FirstDiff(do, dc)))
			return
		}
	}
	if sh := sharedNode(sel, clone); sh != "" {
		r.Violation("clone-shares-node", det("original and clone share a mutable node: "+sh))
		return
	}
	local["clone-faithful-and-unshared"]++
	// expressions and measurements
	exprs := []influxql.Expr{sel.Condition}
	for _, f := range sel.Fields {
		exprs = append(exprs, f.Expr)
	}
	for _, d := range sel.Dimensions {
		exprs = append(exprs, d.Expr)
	}
	for _, e := range exprs {
		if e == nil {
			continue
		}
		ce := influxql.CloneExpr(e)
		if dumpOf(ce) != dumpOf(e) {
			r.Violation("CloneExpr-differs", det("CloneExpr not identical for "+e.String()))
			return
		}
		if sh := sharedNode(e, ce); sh != "" {
			r.Violation("CloneExpr-shares-node", det("CloneExpr of "+e.String()+": "+sh))
			return
		}
		local["CloneExpr-checked"]++
	}
	for _, m := range sel.Sources.Measurements() {
		cm := m.Clone()
		if dumpOf(cm) != dumpOf(m) {
			r.Violation("Measurement.Clone-differs", det(astx.FirstDiff(dumpOf(m), dumpOf(cm))))
			return
		}
		if m.Regex != nil {
			cr := influxql.CloneRegexLiteral(m.Regex)
			if dumpOf(cr) != dumpOf(m.Regex) || cr == m.Regex {
				r.Violation("CloneRegexLiteral", det("CloneRegexLiteral not a faithful separate literal"))
				return
			}
		}
	}
	// (4) derived operations leave the receiver alone
	for _, op := range Ops {
		if op.Mutates {
			continue
		}
		before := dumpOf(st)
		if p, _, _ := mon.Try(func() { op.Run(st, mon.NewRng(c.Seed, "c14.derived."+op.Name, idx)) }); p {
			continue // totality is C13's business
		}
		if after := dumpOf(st); after != before {
			r.Violation("derived-operation-mutates-receiver", det(op.Name+" changed its receiver: "+astx.FirstDiff(before, after)))
			return
		}
		local["derived."+op.Name]++
	}
	// the receiver as seen from inside the call: a valuer consulted during
	// Reduce looks at the statement being reduced
	{
		before := dumpOf(sel)
		seen := ""
		ov := observingValuer{now: fixedNow, look: func() {
			if seen == "" {
				if d := dumpOf(sel); d != before {
					seen = astx.FirstDiff(before, d)
				}
			}
		}}
		mon.Try(func() { _ = sel.Reduce(ov) })
		if seen != "" {
			r.Violation("derived-operation-mutates-receiver", det("while SelectStatement.Reduce was running, its valuer saw the receiver changed: "+seen))
			return
		}
		local["derived.observed-from-inside"]++
	}
	// GroupByOffset / GroupByInterval only write the unexported memo
	before := dumpOf(sel)
	mon.Try(func() { _, _ = sel.GroupByOffset() })
	if dumpOf(sel) != before {
		r.Violation("derived-operation-mutates-receiver", det("GroupByOffset changed exported state"))
		return
	}
	// (3) history: any schedule of in-place operations on the two sides; after
	// every step the side that was not touched must be what it was before the
	// step. Some operations run before the clone is taken (the clone must then
	// be a faithful copy of the rewritten statement, whatever fields the
	// rewrite set).
	for _, sched := range []string{"clone-only", "original-only", "interleaved", "interleaved"} {
		st2, _, _, _, _ := parseQuery1(text)
		_, _, _, a := stmtParts(st2)
		var hist []string
		var preOps, opsA, opsB []c14mut
		for k, pre := 0, rg.Intn(3); k < pre; k++ {
			m := c14muts[rg.Intn(len(c14muts))]
			hist = append(hist, "before-clone:"+m.name)
			preOps = append(preOps, m)
			mon.Try(func() { m.run(a) })
			local["history.before-clone"]++
		}
		var b *influxql.SelectStatement
		mon.Try(func() { b = a.Clone() })
		if b == nil {
			return
		}
		if da, db := dumpOf(a), dumpOf(b); da != db {
			r.Violation("clone-differs", det(fmt.Sprintf("after %v the clone differs from the statement it was taken from: %s", hist, astx.FirstDiff(da, db))))
			return
		}
		steps := rg.Range(1, 6)
		for k := 0; k < steps; k++ {
			victim, watched, side := b, a, "clone"
			if sched == "original-only" || (sched == "interleaved" && rg.Bool()) {
				victim, watched, side = a, b, "original"
			}
			snap := c14Obs(watched)
			m := c14muts[rg.Intn(len(c14muts))]
			hist = append(hist, side+":"+m.name)
			if side == "original" {
				opsA = append(opsA, m)
			} else {
				opsB = append(opsB, m)
			}
			mon.Try(func() { m.run(victim) })
			local["history."+m.name]++
			if now := c14Obs(watched); now != snap {
				r.Violation("mutation-visible-on-other-side", det(fmt.Sprintf("after %v (last step applied to the %s), the other side changed: %s", hist, side, astx.FirstDiff(snap, now))))
				return
			}
		}
		// Independence also means: each side ends where its own operations alone
		// take it. The same operations on a fresh parse (and a clone taken at the
		// same point), nothing else happening in between, must arrive there too.
		if sched == "interleaved" && len(opsA) > 0 && len(opsB) > 0 {
			st3, _, _, _, _ := parseQuery1(text)
			_, _, _, a2 := stmtParts(st3)
			for _, m := range preOps {
				mon.Try(func() { m.run(a2) })
			}
			var b2 *influxql.SelectStatement
			mon.Try(func() { b2 = a2.Clone() })
			if b2 != nil {
				for _, m := range opsB {
					mon.Try(func() { m.run(b2) })
				}
				for _, m := range opsA {
					mon.Try(func() { m.run(a2) })
				}
				for _, pr := range [][2]*influxql.SelectStatement{{a, a2}, {b, b2}} {
					// (structure only: the interval memo answers by when it was first asked)
					if x, y := c14appendRe.ReplaceAllString(dumpOf(pr[0]), "appended"), c14appendRe.ReplaceAllString(dumpOf(pr[1]), "appended"); x != y {
						r.Violation("mutation-visible-on-other-side", det(fmt.Sprintf("after %v one side is not where its own operations take it when they run alone (clone first, then original): %s", hist, astx.FirstDiff(y, x))))
						return
					}
				}
				local["history.sides-end-where-their-own-operations-lead"]++
			}
		}
	}
	local["histories-ok"]++
	// lists emptied in place keep their capacity: a copy taken then (Clone, or
	// the statements Reduce and RewriteFields return) must not grow into the
	// same memory as its origin
	for _, how := range []string{"Clone", "Reduce", "RewriteFields", "RewriteTimeFields+Clone"} {
		st2, _, _, _, _ := parseQuery1(text)
		_, _, _, a := stmtParts(st2)
		if how == "RewriteTimeFields+Clone" {
			a.Fields = a.Fields[:1]
			a.Fields[0] = &influxql.Field{Expr: &influxql.VarRef{Val: "time"}, Alias: "ts"}
			a.RewriteTimeFields()
		} else {
			c14mutNamed("truncate-lists").run(a)
		}
		var b *influxql.SelectStatement
		mon.Try(func() {
			switch how {
			case "Reduce":
				b = a.Reduce(nil)
			case "RewriteFields":
				b, _ = a.RewriteFields(randomMapper(mon.NewRng(c.Seed, "c14.mapper", idx), nil))
			default:
				b = a.Clone()
			}
		})
		if b == nil {
			continue
		}
		first, second := a, b
		if rg.Bool() {
			first, second = b, a
		}
		c14mutNamed("append-to-lists").run(first)
		snap := dumpOf(first)
		c14mutNamed("append-to-lists").run(second)
		if now := dumpOf(first); now != snap {
			r.Violation("mutation-visible-on-other-side", det(fmt.Sprintf("lists emptied in place, then %s, then an element appended to each list on both sides: the second append changed the other statement: %s", how, astx.FirstDiff(snap, now))))
			return
		}
		local["emptied-lists."+how]++
	}
	// (5) the statements returned by Reduce and RewriteFields are new
	// statements: in-place rewrites applied to them afterwards touch only them,
	// and rewrites of the receiver do not reach them
	derive := []struct {
		name string
		mk   func(s *influxql.SelectStatement) *influxql.SelectStatement
	}{
		{"Reduce(now)", func(s *influxql.SelectStatement) *influxql.SelectStatement {
			return s.Reduce(&influxql.NowValuer{Now: fixedNow})
		}},
		{"Reduce(nil)", func(s *influxql.SelectStatement) *influxql.SelectStatement { return s.Reduce(nil) }},
		{"RewriteFields", func(s *influxql.SelectStatement) *influxql.SelectStatement {
			o, err := s.RewriteFields(randomMapper(mon.NewRng(c.Seed, "c14.mapper", idx), refNames(s)))
			if err != nil {
				return nil
			}
			return o
		}},
	}
	for _, dv := range derive {
		for _, side := range []string{"result", "receiver"} {
			st2, _, _, _, _ := parseQuery1(text)
			_, _, _, a := stmtParts(st2)
			if rg.Bool() {
				// the receiver has answered these before (it keeps a memo of them)
				mon.Try(func() { _, _ = a.GroupByInterval(); _, _ = a.GroupByOffset() })
			}
			var b *influxql.SelectStatement
			mon.Try(func() { b = dv.mk(a) })
			if b == nil {
				break
			}
			// the returned statement answers for its own tree: like the statement
			// the same call returns for a fresh parse that was never asked anything
			if side == "result" {
				st4, _, _, _, _ := parseQuery1(text)
				if _, _, _, a4 := stmtParts(st4); a4 != nil {
					var fresh *influxql.SelectStatement
					mon.Try(func() { fresh = dv.mk(a4) })
					if fresh != nil {
						gb := func(s *influxql.SelectStatement) (out string) {
							mon.Try(func() {
								d, e1 := s.GroupByInterval()
								o, e2 := s.GroupByOffset()
								out = fmt.Sprint(d, e1, o, e2)
							})
							return
						}
						if x, y := gb(b), gb(fresh); x != y || dumpOf(b) != dumpOf(fresh) {
							r.Violation("mutation-visible-on-other-side", det(fmt.Sprintf("%s of a statement that had been asked for its GROUP BY interval before returns a statement whose interval / offset are %s; of the same statement freshly parsed, %s (%s)", dv.name, x, y, astx.FirstDiff(dumpOf(fresh), dumpOf(b)))))
							return
						}
						local["derived.group-by-answers-own-tree"]++
					}
				}
			}
			victim, watched := b, a
			if side == "receiver" {
				victim, watched = a, b
			}
			snap := dumpOf(watched)
			var hist []string
			for k, steps := 0, rg.Range(1, 4); k < steps; k++ {
				m := c14muts[rg.Intn(len(c14muts))]
				hist = append(hist, m.name)
				mon.Try(func() { m.run(victim) })
				if now := dumpOf(watched); now != snap {
					r.Violation("mutation-visible-on-other-side", det(fmt.Sprintf("%s returned a statement; after %v applied to the %s, the other one changed: %s", dv.name, hist, side, astx.FirstDiff(snap, now))))
					return
				}
			}
			local["derived-history."+dv.name]++
		}
	}
}

// observingValuer answers now() and no variable, and calls look on every
// request.
type observingValuer struct {
	now  time.Time
	look func()
}

func (v observingValuer) Value(key string) (interface{}, bool) { v.look(); return nil, false }
func (v observingValuer) Call(name string, args []interface{}) (interface{}, bool) {
	v.look()
	if name == "now" && len(args) == 0 {
		return v.now, true
	}
	return nil, false
}
func (v observingValuer) Zone() *time.Location { v.look(); return nil }

func c14Known(diffPath string) string { return "" }

var c14Fixed = []string{
	"SELECT (a + b) * 2 FROM m WHERE (a > 1 OR b > 2) AND c =~ /^x$/",
	"SELECT x INTO db.rp.t FROM m",
	"SELECT x INTO rp.:MEASUREMENT FROM db.rp./re/, (SELECT v FROM cpu WHERE time > now() - 10m AND v > 1 + 1)",
	"SELECT mean(v) FROM (SELECT v FROM (SELECT v FROM cpu WHERE time > now() - 1h AND 2 * 3 = 6)) WHERE time > now() - 10m GROUP BY time(1m + 1m)",
	"SELECT DISTINCT host FROM cpu",
	"SELECT time AS ts, count(DISTINCT v) FROM cpu GROUP BY time(1m, 30s), host fill(3.5) ORDER BY time DESC TZ('America/New_York')",
	"SELECT top(v, host, 3), (v) FROM /cpu.*/ WHERE host =~ /^(a|b)$/ OR (region !~ /^us$/ AND v > 10)",
	"SELECT v FROM cpu WHERE host !~ /^$/ AND (region =~ /^$/ OR dc =~ /^a$/)",
	"SELECT time AS ts, time, v FROM (SELECT v FROM cpu WHERE host !~ /^$/) WHERE region !~ /^$/ GROUP BY time(1m), * fill(previous)",
}

func checkC14(c *Ctx) (string, bool, []string) {
	r := c.R
	rule := "SELECT statements (bare, inside EXPLAIN and continuous queries) from all clause subsets and random payloads (INTO targets of every form, regex sources, subqueries to depth 3, parenthesised and nested expressions) plus fixed statements with reducible subquery content: Clone / CloneExpr / Measurement.Clone / CloneRegexLiteral compared structurally and walked for shared mutable nodes; every non-mutating operation checked for receiver change; 0-2 in-place operations before the clone is taken (the clone must equal the rewritten statement) and 1-6 after it, on the clone only, on the original only, or interleaved on both (RewriteRegexConditions, RewriteDistinct, RewriteTimeFields, SetTimeRange, mutating Rewrite / RewriteExpr, reflective pokes of every string / number / bool / slice slot) applied to the clone and to the original with the other side's dump compared after every step; the same histories between a statement and the statements Reduce / RewriteFields return for it. Non-trivial = statement has a WHERE, GROUP BY, INTO or subquery; distinct by text."
	assume := []string{"*regexp.Regexp and *time.Location are immutable library objects and may be shared", "the unexported GROUP BY interval memo is not part of a statement's observable structure"}
	if c.Replay != nil {
		c14One(c, replayStr(c, "input"), replayInt(c, "idx"), map[string]int64{})
		return rule, false, assume
	}
	// every fixed statement under 60 (600) different random schedules
	nf := c.N(60, 600)
	// a clone taken before anything in the process has used local time
	envProbe(c, "env-local-clone", "clone-differs")
	mon.Parallel(len(c14Fixed)*nf, c.Workers, func(j int) {
		local := map[string]int64{}
		t := c14Fixed[j%len(c14Fixed)]
		c14One(c, t, 2000000+j, local)
		r.DistinctStr(t)
		r.MergeCounts(local)
	})
	kinds := []int{gen.KindIndex("Select"), gen.KindIndex("Explain"), gen.KindIndex("CreateContinuousQuery")}
	type job struct{ kind, mask int }
	var jobs []job
	for _, k := range kinds {
		n := 1 << uint(len(gen.Kinds[k].Clauses))
		step := 1
		if !c.Thorough() {
			step = 4
		}
		for m := 0; m < n; m += step {
			jobs = append(jobs, job{k, m})
		}
	}
	mon.Parallel(len(jobs), c.Workers, func(i int) {
		local := map[string]int64{}
		gc := genCase(c.Seed, "c14.subset", i, jobs[i].kind, jobs[i].mask, gen.Opts{Simple: true}, "minimal")
		c14One(c, gc.Text, i, local)
		r.DistinctStr(gc.Text)
		r.MergeCounts(local)
	})
	n := c.N(5000, 300000)
	mon.Parallel(n, c.Workers, func(i int) {
		local := map[string]int64{}
		gc := genCase(c.Seed, "c14.rand", i, kinds[i%3], -1, gen.Opts{SubqDepth: 3, SubqProb: 0.35, MaxDepth: 2 + i%2, Hostile: i%7 == 0}, "spaced")
		c14One(c, gc.Text, i, local)
		r.DistinctStr(gc.Text)
		if i < 4 {
			r.Sample(map[string]string{"statement": gc.Text})
		}
		r.MergeCounts(local)
	})
	for _, m := range c14muts {
		r.Require(r.Counter("history."+m.name) > 0, "in-place operation "+m.name+" never applied")
	}
	r.Require(r.Counter("histories-ok") > 0 && r.Counter("clone-faithful-and-unshared") > 0 && r.Counter("CloneExpr-checked") > 0, "nothing observed")
	return rule, false, assume
}
