package checks

import (
	"fmt"
	"strings"

	"github.com/influxdata/influxql"
	"verifharness/gen"
	"verifharness/mon"
)

// C15 — passwords never appear in printed statements or sanitized query text.
//
// Oracle: marker search. Passwords are built from unique 4-character markers
// joined by hostile separators, so "any fragment of the password" is a
// substring search for markers; the password literal's source span is known
// from the renderer, so "Sanitize changes nothing but the literal" is exact.

func init() { Registry["C15"] = checkC15 }

var c15seps = []string{"", " ", "\t", "'", `"`, `\`, "=", ";", "--", "/*", "*/", "\n", "é", "  ", "' OR '", `" = "`, "password", " with password ", "$", "İ", "K", "/* a\n b */", "*", "[REDACTED]", "REDACTED", "[redacted]"}

type c15stmt struct {
	toks    []gen.Tok
	pwTok   int                    // index of the password literal token
	params  map[string]interface{} // bound parameters the statement uses (user name written as a placeholder)
	pwEnd   int                    // index of the last token of the password (== pwTok unless it is split over adjacent literals)
	markers []string
	pw      string
	user    string
	trap    string // where a clause look-alike was put ("" = nowhere)
}

var c15users = []string{"admin", "jo hn", "a=b", `q"t`, "x'y", "password", "for", "with", "é", "a = b", "u--c", "pass word for x = ", "İstanbul", "KelvinKK", "ẞtraße", "ȺȾ", "ΩΩÅ", "日本語"}

// Clause look-alikes: the words that open a password clause, placed where
// they are not a clause (inside a quoted name, a string literal, a regex or a
// comment).
var c15trapNames = []string{"with password '", "with password 'x", `x with password "`, "set password for a = '", "password for a='b", "WITH PASSWORD 'p", "with\npassword '", "a with password"}

var c15trapStmts = []struct{ text, where string }{
	{"SELECT 'with password' FROM x", "string-literal"},
	{"SELECT v FROM m WHERE h = 'with password'", "string-literal"},
	{"SELECT v FROM m WHERE h = 'set password for u = '", "string-literal"},
	{"SELECT v FROM m WHERE h = 'x with password \\''", "string-literal"},
	{`SELECT v FROM m WHERE "with password" = 1`, "quoted-identifier"},
	{`SELECT v FROM "password for u = '"`, "quoted-identifier"},
	{`DROP USER "with password '"`, "quoted-identifier"},
	{"SELECT v FROM m WHERE h =~ /with password '/", "regex"},
	{"SELECT v FROM /password for u = '/", "regex"},
	{"SELECT v FROM m /* with password */", "comment"},
	{"SELECT v FROM m -- with password '\n", "comment"},
	{"SELECT v /* set password for u = 'old' */ FROM m", "comment"},
}

var c15trapComments = []string{" /* with password */ ", " -- with password '\n", " /* set password for u = 'old' */ ", " /* WITH PASSWORD 'q */ ", " -- password for u =\n"}

func c15Markers(rg *mon.Rng, n int) []string {
	const al = "BCDFGHJKLMNPQRSTVWXZ"
	var out []string
	for i := 0; i < n; i++ {
		b := make([]byte, 4)
		for j := range b {
			b[j] = al[rg.Intn(len(al))]
		}
		out = append(out, string(b)+fmt.Sprint(rg.Intn(10)))
	}
	return out
}

func c15Gen(rg *mon.Rng) *c15stmt {
	b := &gen.Builder{Rg: rg, KwStyle: rg.Intn(4)}
	s := &c15stmt{}
	s.markers = c15Markers(rg, rg.Range(1, 3))
	var pw strings.Builder
	if rg.P(0.3) {
		pw.WriteString(c15seps[rg.Intn(len(c15seps))])
	}
	for i, m := range s.markers {
		if i > 0 {
			pw.WriteString(c15seps[rg.Intn(len(c15seps))])
		}
		pw.WriteString(m)
	}
	if rg.P(0.3) {
		pw.WriteString(c15seps[rg.Intn(len(c15seps))])
	}
	s.pw = pw.String()
	s.user = c15users[rg.Intn(len(c15users))]
	if rg.P(0.3) {
		s.user = "u" + fmt.Sprint(rg.Intn(1000))
	} else if rg.P(0.06) {
		// the words of a password clause inside the (quoted) user name
		s.user = c15trapNames[rg.Intn(len(c15trapNames))]
		s.trap = "quoted-identifier"
	}
	if rg.Bool() {
		b.Kw("CREATE USER")
		b.Ident(s.user)
		userTok := len(b.Toks) - 1
		c15GluePrefix(rg, b)
		defer func() { c15Odd(rg, b, s, userTok); s.toks = b.Toks }()
		b.Kw("WITH PASSWORD")
		b.Str(s.pw)
		s.pwTok = len(b.Toks) - 1
		c15Split(rg, b, s)
		if rg.P(0.4) {
			b.Kw("WITH ALL PRIVILEGES")
		}
	} else {
		b.Kw("SET PASSWORD FOR")
		b.Ident(s.user)
		userTok := len(b.Toks) - 1
		c15GluePrefix(rg, b)
		defer func() { c15Odd(rg, b, s, userTok); s.toks = b.Toks }()
		b.Op("=")
		b.Str(s.pw)
		s.pwTok = len(b.Toks) - 1
		c15Split(rg, b, s)
	}
	s.toks = b.Toks
	return s
}

// c15Odd sometimes writes the user name as a bound parameter, or spells one
// letter of a keyword with a look-alike that upper/lower-cases to it (judged
// only if the parser accepts the text).
func c15Odd(rg *mon.Rng, b *gen.Builder, s *c15stmt, userTok int) {
	switch {
	case rg.P(0.08):
		key := rg.Pick("u", "user", "the user", "u1")
		s.params = map[string]interface{}{key: map[string]interface{}{"identifier": s.user}}
		b.Toks[userTok].Text = "$" + key
		if strings.Contains(key, " ") || rg.Bool() {
			b.Toks[userTok].Text = `$"` + key + `"`
		}
	case rg.P(0.08):
		for try := 0; try < 6; try++ {
			t := &b.Toks[rg.Intn(len(b.Toks))]
			if t.Class != gen.CKw {
				continue
			}
			for _, sub := range [][2]string{{"I", "\u0130"}, {"i", "\u0130"}, {"K", "\u212a"}, {"k", "\u212a"}, {"S", "\u017f"}, {"s", "\u017f"}, {"i", "\u0131"}} {
				if k := strings.Index(t.Text, sub[0]); k >= 0 && rg.Bool() {
					t.Text = t.Text[:k] + sub[1] + t.Text[k+1:]
					return
				}
			}
		}
	}
}

// c15GluePrefix sometimes glues a bare word to the opening quote of the user
// name just written (`abc"name"`), a spelling the scanner is known to accept.
func c15GluePrefix(rg *mon.Rng, b *gen.Builder) {
	t := &b.Toks[len(b.Toks)-1]
	if strings.HasPrefix(t.Text, `"`) && rg.P(0.1) {
		t.Text = rg.Pick("abc", "x1", "TRUE", "_", "for", "password") + t.Text
	}
}

// c15Split sometimes continues the password in one or two adjacent string
// literals (a spelling some SQL dialects join into one value). The grammar
// does not have it; the text is judged like any other, only if accepted.
func c15Split(rg *mon.Rng, b *gen.Builder, s *c15stmt) {
	s.pwEnd = s.pwTok
	if !rg.P(0.08) {
		return
	}
	for k, n := 0, rg.Range(1, 2); k < n; k++ {
		m := c15Markers(rg, 1)
		s.markers = append(s.markers, m...)
		b.Str(m[0])
		s.pwEnd = len(b.Toks) - 1
	}
}

// c15Render renders tokens with random gaps, optionally with comments in
// gaps, and returns the text and the byte span of token `want`.
func c15Render(rg *mon.Rng, toks []gen.Tok, want int, comments bool) (string, int, int) {
	return c15RenderX(rg, toks, want, want, comments, -1)
}

// c15Exotic are characters some lexers take for blanks and others do not. A
// text that uses one as a separator is judged like any other: only if the
// parser accepts it.
var c15Exotic = []string{"\v", "\f", "\u0085", "\u00a0", "\u1680", "\u2003", "\u2028", "\u2029", "\u202f", "\u3000", "\ufeff", "\x00"}

// c15RenderX: the gap in front of token exoticAt (when >= 0) is one exotic blank.
func c15RenderX(rg *mon.Rng, toks []gen.Tok, want, wantEnd int, comments bool, exoticAt int) (string, int, int) {
	return c15RenderT(rg, toks, want, wantEnd, comments, exoticAt, nil)
}

// c15RenderT: with trap != nil, a comment may carry the words of a password
// clause; *trap is set when one was written.
func c15RenderT(rg *mon.Rng, toks []gen.Tok, want, wantEnd int, comments bool, exoticAt int, trap *string) (string, int, int) {
	var sb strings.Builder
	st, en := -1, -1
	for i, t := range toks {
		g := ""
		if i > 0 {
			switch {
			case t.Gap == gen.GapNone:
			case t.Gap == gen.GapReq:
				g = []string{" ", "\t", "\n", "\r\n", "  ", " \n "}[rg.Intn(6)]
			default:
				g = []string{"", "", " ", "\n", "\t"}[rg.Intn(5)]
			}
			if comments && rg.P(0.3) {
				g = g + []string{" /* c */ ", " -- c\n", "\n/* x = 'y' */\n", " /* password 'zz' */ ", " /* two\nlines */ ", " /* * ** / */ ", " -- İ\u212A\r\n", " /* was: set password for u = [REDACTED] */ ", " -- [REDACTED]\n"}[rg.Intn(9)]
			}
			if trap != nil && comments && rg.P(0.05) {
				g = g + c15trapComments[rg.Intn(len(c15trapComments))]
				*trap = "comment"
			}
			if i == exoticAt {
				g = c15Exotic[rg.Intn(len(c15Exotic))]
			}
		}
		sb.WriteString(g)
		if i == want {
			st = sb.Len()
		}
		sb.WriteString(t.Text)
		if i == wantEnd {
			en = sb.Len()
		}
	}
	return sb.String(), st, en
}

type c15span struct{ st, en int }

// c15Check applies the oracles to one text with known password spans.
func c15Check(c *Ctx, text string, spans []c15span, markers []string, detBase map[string]interface{}, local map[string]int64) {
	c15CheckP(c, text, spans, markers, detBase, local, nil)
}

// c15CheckP: the same with bound parameters (a user name may be one).
func c15CheckP(c *Ctx, text string, spans []c15span, markers []string, detBase map[string]interface{}, local map[string]int64, params map[string]interface{}) {
	r := c.R
	det := func(why string) map[string]interface{} {
		d := map[string]interface{}{"input": text, "markers": markers, "why": why}
		for k, v := range detBase {
			d[k] = v
		}
		return d
	}
	var q *influxql.Query
	var err error
	var san string
	var printed string
	if p, pv, stk := mon.Try(func() {
		p := influxql.NewParser(strings.NewReader(text))
		if params != nil {
			p.SetParams(params)
		}
		q, err = p.ParseQuery()
		if err == nil {
			printed = q.String()
		}
		san = influxql.Sanitize(text)
	}); p {
		d := det(fmt.Sprint(pv))
		d["stack"] = stk
		r.Violation("panic", d)
		return
	}
	if err != nil {
		local["not-accepted(skipped)"]++
		return
	}
	r.Eval(1)
	local["accepted"]++
	for _, m := range markers {
		if strings.Contains(printed, m) {
			r.Violation("password-in-String", det("marker "+m+" appears in String(): "+trunc(printed, 300)))
			return
		}
	}
	// Just before the statement is printed again, on this goroutine: the same
	// text with a typing error in the password (an escape the language does
	// not have), which the parser rejects half-way through the literal. What
	// that attempt left behind must not surface in the print.
	if len(spans) > 0 && len(markers) > 0 && mon.Hash64(text)%3 == 0 {
		sp := spans[0]
		typo := text[:sp.st] + "'" + markers[0] + "\\q" + markers[0] + "'" + text[sp.en:]
		var again string
		if p, pv, stk := mon.Try(func() {
			ps := influxql.NewParser(strings.NewReader(typo))
			if params != nil {
				ps.SetParams(params)
			}
			_, _ = ps.ParseQuery()
			again = q.String()
		}); p {
			d := det(fmt.Sprint(pv))
			d["stack"] = stk
			r.Violation("panic", d)
			return
		}
		for _, m := range markers {
			if strings.Contains(again, m) {
				r.Violation("password-in-String", det("after a mistyped variant of the same text was rejected, marker "+m+" appears in String(): "+trunc(again, 300)))
				return
			}
		}
		if again != printed {
			r.Violation("password-in-String", det(fmt.Sprintf("printed %q, and after a mistyped variant of the text was rejected %q", trunc(printed, 200), trunc(again, 200))))
			return
		}
		local["printed-again-after-a-rejected-variant"]++
	}
	// Sanitize: everything outside the spans must be preserved, in order, and
	// what replaces each span must not carry password material.
	leak := ""
	for _, m := range markers {
		if strings.Contains(san, m) {
			leak = m
		}
	}
	structural := ""
	pos := 0
	prev := 0
	for i, sp := range spans {
		seg := text[prev:sp.st]
		if i == 0 {
			if !strings.HasPrefix(san, seg) {
				structural = "text before the password literal changed"
				break
			}
			pos = len(seg)
		} else {
			k := strings.Index(san[pos:], seg)
			if k < 0 {
				structural = "text between password literals changed"
				break
			}
			pos += k + len(seg)
		}
		prev = sp.en
	}
	if structural == "" {
		tail := text[prev:]
		if !strings.HasSuffix(san[pos:], tail) {
			structural = "text after the password literal changed"
		}
	}
	if leak == "" && structural == "" {
		local["sanitize-ok"]++
		return
	}
	why := structural
	if leak != "" {
		why = "marker " + leak + " survives in Sanitize output; " + structural
	}
	why += " | Sanitize=" + trunc(san, 400)
	trap, _ := detBase["trap"].(string)
	if key := c15Known(trap); key != "" && r.Known(key, text) {
		local["known."+key]++
		return
	}
	r.Violation("sanitize", det(why))
}

// c15Known names the known Sanitize deviation for a text in which the harness
// put the words of a password clause inside a quoted name, a string literal, a
// regex or a comment (trap says where; "" = nowhere, nothing is known).
func c15Known(trap string) string {
	if trap == "" {
		return ""
	}
	return "clause-words-inside-" + trap
}

func checkC15(c *Ctx) (string, bool, []string) {
	r := c.R
	rule := "CREATE USER ... WITH PASSWORD / SET PASSWORD FOR ... = statements with passwords built from unique markers joined by hostile separators (spaces, both quotes, backslash, =, ;, comment openers, newline escape, non-ASCII, the words 'password'/'with password'), user names written as bound parameters, one keyword letter replaced by a look-alike that case-folds to it (judged only if accepted), hostile user names (also with a bare word glued to the opening quote), every keyword case and whitespace layout incl. none around '=', comments in gaps, the password continued in adjacent string literals (judged only if the parser accepts that), an earlier Sanitize call on a same-length text with the same beginning and end but no password clause, one separator replaced by a blank-like character outside [ \\t\\n\\r] (VT, FF, NEL, NBSP, EM SPACE, LINE SEPARATOR, BOM, NUL, ...) in a fifth of them; alone and among 1-4 statements of other kinds. Marker search in String() and Sanitize(); exact preservation of the text outside the literal spans; Sanitize(t)==t for statements of all other kinds. Non-trivial = password has a separator or layout differs from canonical; distinct by text."
	assume := []string{"only parser-accepted texts are judged", "the replacement text for the literal is not prescribed, only that it carries no password material"}
	if c.Replay != nil {
		local := map[string]int64{}
		var spans []c15span
		if xs, ok := c.Replay["spans"].([]interface{}); ok {
			for _, x := range xs {
				p := x.([]interface{})
				spans = append(spans, c15span{int(p[0].(float64)), int(p[1].(float64))})
			}
		}
		var markers []string
		if xs, ok := c.Replay["markers"].([]interface{}); ok {
			for _, x := range xs {
				markers = append(markers, x.(string))
			}
		}
		c15Check(c, replayStr(c, "input"), spans, markers, map[string]interface{}{"spans": c.Replay["spans"], "trap": c.Replay["trap"]}, local)
		return rule, false, assume
	}
	// Texts with the same length and the same 32-bit checksum, one after the
	// other in this process: (a) a text without a password clause, then a
	// password statement; (b) a statement whose password is P, then one whose
	// quoted user name has P's checksum. What was seen before must not stand
	// in for what is there now.
	{
		local := map[string]int64{}
		const al = "abcdefghijklmnopqrstuvwxyz0123456789"
		for ki, kind := range mon.SumKinds {
			sd := uint64(c.Seed) + uint64(ki)
			headA, headB := "SELECT mean(usage) FROM cpu WHERE host = 'srv", "CREATE USER grafana WITH PASSWORD '"
			marker := "QZKW7"
			clean, withPw, ok := mon.CollideAB(kind,
				func(i int) string { return headA + mon.Word(sd, i, 9, al) + "'" },
				func(i int) string {
					return headB + marker + mon.Word(sd+50, i, len(headA)+9-len(headB)-len(marker), al) + "'"
				},
				1<<20)
			if ok {
				_ = influxql.Sanitize(clean)
				c15Check(c, clean, nil, nil, map[string]interface{}{"spans": []interface{}{}}, local)
				c15Check(c, withPw, []c15span{{len(headB) - 1, len(withPw)}}, []string{marker}, map[string]interface{}{"spans": []interface{}{[]int{len(headB) - 1, len(withPw)}}}, local)
				local["same-checksum.text-pairs"]++
			}
			pw, name, ok := mon.CollideAB(kind,
				func(i int) string { return marker + mon.Word(sd+7, i, 7, al) },
				func(i int) string { return "u" + mon.Word(sd+9, i, 11, al) },
				1<<20)
			if ok {
				t1 := `CREATE USER "alice" WITH PASSWORD '` + pw + `'`
				t2 := `CREATE USER "` + name + `" WITH PASSWORD '` + pw + `' WITH ALL PRIVILEGES`
				t3 := `SET PASSWORD FOR "` + name + `" = '` + pw + `'`
				for _, t := range []string{t1, t2, t3} {
					st := strings.Index(t, "'"+pw)
					c15Check(c, t, []c15span{{st, st + len(pw) + 2}}, []string{marker}, map[string]interface{}{"spans": []interface{}{[]int{st, st + len(pw) + 2}}}, local)
				}
				local["same-checksum.literal-pairs"]++
			}
		}
		r.MergeCounts(local)
	}
	n := c.N(40000, 1000000)
	mon.Parallel(n, c.Workers, func(i int) {
		rg := mon.NewRng(c.Seed, "c15", i)
		local := map[string]int64{}
		nst := 1
		if rg.P(0.3) {
			nst = rg.Range(2, 4)
		}
		var sb strings.Builder
		var spans []c15span
		var markers []string
		var params map[string]interface{}
		comments := rg.P(0.25)
		trap := ""
		for j := 0; j < nst; j++ {
			if j > 0 {
				sb.WriteString([]string{";", "; ", " ;\n", ";\n"}[rg.Intn(4)])
			}
			if nst > 1 && rg.P(0.08) && !(j == nst-1 && len(spans) == 0) {
				ts := c15trapStmts[rg.Intn(len(c15trapStmts))]
				sb.WriteString(ts.text)
				if trap == "" {
					trap = ts.where
				}
				continue
			}
			if nst > 1 && rg.P(0.4) && !(j == nst-1 && len(spans) == 0) {
				gc := genCase(c.Seed, "c15.other", i*4+j, -1, -1, gen.Opts{MaxDepth: 1}, "random")
				if gen.Kinds[gc.Kind].Name != "CreateUser" && gen.Kinds[gc.Kind].Name != "SetPassword" {
					sb.WriteString(gc.Text)
					continue
				}
			}
			s := c15Gen(rg)
			exoticAt := -1
			if rg.P(0.2) {
				exoticAt = 1 + rg.Intn(len(s.toks)-1)
				local["exotic-blank-variants"]++
			}
			ctrap := ""
			t, st, en := c15RenderT(rg, s.toks, s.pwTok, s.pwEnd, comments, exoticAt, &ctrap)
			if trap == "" {
				trap = s.trap
			}
			if trap == "" {
				trap = ctrap
			}
			if s.pwEnd != s.pwTok {
				local["split-literal-variants"]++
			}
			spans = append(spans, c15span{sb.Len() + st, sb.Len() + en})
			sb.WriteString(t)
			markers = append(markers, s.markers...)
			for k, v := range s.params {
				if params == nil {
					params = map[string]interface{}{}
				}
				params[k] = v
				local["user-as-parameter"]++
			}
		}
		text := sb.String()
		var sj []interface{}
		for _, sp := range spans {
			sj = append(sj, []int{sp.st, sp.en})
		}
		if rg.P(0.4) {
			// an earlier call on a text of the same length, with the same
			// beginning and end, that holds no password clause: what Sanitize
			// did before must not matter for what it does now
			decoy := []byte(text)
			for _, sp := range spans {
				for k := sp.st; k < sp.en; k++ {
					if decoy[k] < 0x80 && decoy[k] != '\n' {
						decoy[k] = 'x'
					}
				}
			}
			low := strings.ToLower(string(decoy))
			for k := strings.Index(low, "password"); k >= 0; {
				decoy[k+4] = '-'
				nx := strings.Index(low[k+8:], "password")
				if nx < 0 {
					break
				}
				k += 8 + nx
			}
			_ = influxql.Sanitize(string(decoy))
			_ = influxql.Sanitize(text[:len(text)/2])
			local["decoy-called-first"]++
		}
		if trap != "" {
			local["clause-words-inside-"+trap+"(texts)"]++
		}
		c15CheckP(c, text, spans, markers, map[string]interface{}{"spans": sj, "params": fmt.Sprintf("%v", params), "trap": trap}, local, params)
		r.DistinctStr(text)
		if comments {
			local["with-comments"]++
		}
		if nst > 1 {
			local["multi-statement"]++
		}
		if i < 5 {
			r.Sample(map[string]interface{}{"text": text, "markers": markers, "Sanitize": influxql.Sanitize(text)})
		}
		r.MergeCounts(local)
	})
	// texts without password clauses are returned unchanged
	nother := c.N(20000, 300000)
	mon.Parallel(nother, c.Workers, func(i int) {
		local := map[string]int64{}
		gc := genCase(c.Seed, "c15.nopw", i, -1, -1, gen.Opts{Hostile: i%3 == 0}, "random")
		name := gen.Kinds[gc.Kind].Name
		if name == "CreateUser" || name == "SetPassword" {
			return
		}
		r.Eval(1)
		if san := influxql.Sanitize(gc.Text); san != gc.Text {
			r.Violation("sanitize-changed-non-password-text", map[string]interface{}{"input": gc.Text, "spans": []interface{}{}, "markers": []string{}, "why": "Sanitize=" + trunc(san, 300)})
		} else {
			local["unchanged-non-password"]++
		}
		r.DistinctStr(gc.Text)
		r.MergeCounts(local)
	})
	r.Require(r.Counter("sanitize-ok") > 0 && r.Counter("unchanged-non-password") > 0, "nothing observed")
	r.Require(r.Counter("with-comments") > 0 && r.Counter("multi-statement") > 0, "layouts not covered")
	return rule, false, assume
}
