package checks

import (
	"fmt"
	"time"

	"github.com/influxdata/influxql"
	"verifharness/astx"
	"verifharness/mon"
)

// C10 — splitting a WHERE clause into time range and residual preserves its
// meaning.
//
// Oracle: the harness's own evaluator of the generated condition (time leaves
// by int64 comparison against the instant the generator chose, other leaves
// by a small comparator, AND / OR / parentheses by Boolean algebra).

func init() { Registry["C10"] = checkC10 }

func c10Setup(seed int64, idx int) (*tcCtx, influxql.Valuer, *tcNode) {
	rg := mon.NewRng(seed, "c10", idx)
	c := &tcCtx{rg: rg, now: fixedNow, extremes: true}
	var valuer influxql.Valuer
	switch rg.Intn(10) {
	case 5, 6:
		// two zones with one name and different offsets
		c.useNow = true
		c.loc = []*time.Location{time.FixedZone("XST", 5*3600+1800), time.FixedZone("XST", -3*3600)}[rg.Intn(2)]
		valuer = &influxql.NowValuer{Now: fixedNow, Location: c.loc}
	case 7:
		// clock and zone through stacked valuers, a zone-less one first
		c.useNow = true
		c.loc, _ = time.LoadLocation("Asia/Kolkata")
		valuer = influxql.MultiValuer(influxql.MultiValuer(influxql.MapValuer{"unused": int64(1)}), &influxql.NowValuer{Now: fixedNow, Location: c.loc})
	case 8:
		c.useNow = true
		c.loc, _ = time.LoadLocation("America/New_York")
		valuer = influxql.MultiValuer(&influxql.NowValuer{Now: fixedNow}, influxql.MultiValuer(influxql.MapValuer{}, &influxql.NowValuer{Now: fixedNow.Add(time.Hour), Location: c.loc}))
	case 9:
		// an explicit UTC zone first, another zone behind it: UTC it is
		c.useNow = true
		c.loc = time.UTC
		ny, _ := time.LoadLocation("America/New_York")
		valuer = influxql.MultiValuer(&influxql.NowValuer{Now: fixedNow, Location: time.UTC}, &influxql.NowValuer{Now: fixedNow.Add(time.Hour), Location: ny})
	case 0:
		valuer = nil
	case 1:
		c.useNow = true
		// no zone; the clock's reading itself may be carried in any location
		valuer = &influxql.NowValuer{Now: []time.Time{fixedNow, fixedNow.In(tcZone("America/New_York")), fixedNow.In(time.FixedZone("", 5*3600+1800)), fixedNow.Local()}[rg.Intn(4)]}
	case 2:
		c.useNow = true
		c.loc = tcZone(rg.Pick("America/New_York", "America/New_York", "Australia/Sydney", "Pacific/Auckland", "America/Los_Angeles", "Europe/London", "Pacific/Chatham"))
		valuer = &influxql.NowValuer{Now: fixedNow, Location: c.loc}
	case 3:
		c.useNow = true
		c.loc, _ = time.LoadLocation("Asia/Kolkata")
		valuer = &influxql.NowValuer{Now: fixedNow, Location: c.loc}
	default:
		c.useNow = true
		valuer = influxql.MultiValuer(&influxql.NowValuer{Now: fixedNow})
	}
	nt, no := rg.Intn(5), rg.Intn(4)
	if nt+no == 0 {
		nt = 1
	}
	return c, valuer, c.condition(nt, no)
}

// c10Intersect: TimeRange.Intersect on ranges a caller builds or converts
// itself. An open end is the zero instant whatever location the value is
// carried in (tr.Max.In(zone) and tr.Max.Local() of an open end are open ends).
func c10Intersect(c *Ctx) {
	r := c.R
	locs := []*time.Location{nil, time.UTC, time.Local, tcZone("America/New_York"), time.FixedZone("", 19800)}
	rg := mon.NewRng(c.Seed, "c10.intersect", 0)
	mk := func(open bool, ns int64, loc *time.Location) time.Time {
		var t time.Time
		if !open {
			t = time.Unix(0, ns)
		}
		if loc != nil {
			t = t.In(loc)
		}
		return t
	}
	for i := 0; i < 4000; i++ {
		var open [4]bool
		var ns [4]int64
		var tm [4]time.Time
		for k := range tm {
			open[k] = rg.P(0.4)
			ns[k] = 946684800000000000 + int64(rg.Intn(100))*3600000000000
			tm[k] = mk(open[k], ns[k], locs[rg.Intn(len(locs))])
		}
		a, b := influxql.TimeRange{Min: tm[0], Max: tm[1]}, influxql.TimeRange{Min: tm[2], Max: tm[3]}
		var got influxql.TimeRange
		if p, pv, stk := mon.Try(func() { got = a.Intersect(b) }); p {
			r.Violation("panic", map[string]interface{}{"idx": -1, "input": fmt.Sprintf("%v Intersect %v", a, b), "why": fmt.Sprint(pv), "stack": stk})
			return
		}
		r.Eval(1)
		wantMin, wantMax := int64(influxql.MinTime), int64(influxql.MaxTime)
		for _, k := range []int{0, 2} {
			if !open[k] && ns[k] > wantMin {
				wantMin = ns[k]
			}
		}
		for _, k := range []int{1, 3} {
			if !open[k] && ns[k] < wantMax {
				wantMax = ns[k]
			}
		}
		if got.MinTimeNano() != wantMin || got.MaxTimeNano() != wantMax {
			r.Violation("time-range-bounds", map[string]interface{}{"idx": -1, "input": fmt.Sprintf("[%v, %v] Intersect [%v, %v]", tm[0], tm[1], tm[2], tm[3]), "why": fmt.Sprintf("result [%d, %d] ns, want [%d, %d] (an open end is the zero instant in whatever location)", got.MinTimeNano(), got.MaxTimeNano(), wantMin, wantMax)})
			return
		}
		r.Count("intersect.hand-built-ranges", 1)
	}
}

func c10One(c *Ctx, idx int, local map[string]int64) {
	r := c.R
	_, valuer, cond := c10Setup(c.Seed, idx)
	text := cond.render()
	det := func(why string) map[string]interface{} {
		return map[string]interface{}{"idx": idx, "input": text, "valuer": fmt.Sprintf("%T", valuer), "why": why}
	}
	var leaves []*tcNode
	cond.timeLeaves(&leaves)
	var resid, resid2 influxql.Expr
	var tr, tr2 influxql.TimeRange
	var err, err2 error
	var before, after string
	if p, pv, stk := mon.Try(func() {
		e, perr := influxql.ParseExpr(text)
		if perr != nil {
			panic("harness: generated condition does not parse: " + perr.Error())
		}
		before = dumpOf(e)
		if idx%3 == 0 {
			// earlier in this process a caller converted the same date strings
			// itself and changed the literals it got back
			influxql.WalkFunc(e, func(n influxql.Node) {
				if sl, ok := n.(*influxql.StringLiteral); ok && sl.IsTimeLiteral() {
					for _, loc := range []*time.Location{time.UTC, tcZone("America/New_York"), tcZone("Asia/Kolkata")} {
						if tl, err := (&influxql.StringLiteral{Val: sl.Val}).ToTimeLiteral(loc); err == nil && tl != nil {
							tl.Val = tl.Val.Add(-13 * time.Hour).Truncate(24 * time.Hour)
						}
					}
				}
			})
		}
		resid, tr, err = influxql.ConditionExpr(e, valuer)
		after = dumpOf(e)
		// the caller's condition is split again (a cached statement planned twice)
		resid2, tr2, err2 = influxql.ConditionExpr(e, valuer)
	}); p {
		d := det(fmt.Sprint(pv))
		d["stack"] = stk
		r.Violation("panic", d)
		return
	}
	r.Eval(1)
	r.DistinctStr(text + fmt.Sprintf("%T", valuer))
	local["conditions"]++
	local[fmt.Sprintf("time-leaves.%d", len(leaves))]++
	if err != nil {
		r.Violation("in-domain-condition-rejected", det(err.Error()))
		return
	}
	if before != after {
		r.Violation("split-rewrites-the-condition", det("ConditionExpr changed the condition it was given: "+astx.FirstDiff(before, after)))
		return
	}
	if err2 != nil || dumpOf(resid2) != dumpOf(resid) || !tr2.Min.Equal(tr.Min) || !tr2.Max.Equal(tr.Max) {
		r.Violation("second-split-differs", det(fmt.Sprintf("splitting the same condition again gives range [%v, %v] residual %v (err %v); the first split gave [%v, %v] residual %v", tr2.Min, tr2.Max, resid2, err2, tr.Min, tr.Max, resid)))
		return
	}
	// a reference keeps the cast it was written with
	if resid != nil {
		var orig influxql.Expr
		mon.Try(func() { orig, _ = influxql.ParseExpr(text) })
		have := tcRefTypes(orig)
		for rt := range tcRefTypes(resid) {
			if !have[rt] {
				r.Violation("residual-changes-a-reference", det(fmt.Sprintf("the residual %s refers to %s, the condition does not (it has %v)", resid, rt, have)))
				return
			}
		}
	}
	local["split-twice-equal"]++
	overflow := false
	for _, l := range leaves {
		overflow = overflow || l.overflow
	}
	// exact bounds
	if !overflow {
		haveLo, haveHi := false, false
		var lo, hi int64
		for _, l := range leaves {
			switch l.timeOp {
			case ">", ">=", "=":
				v := l.instant
				if l.timeOp == ">" {
					v++
				}
				if !haveLo || v > lo {
					lo, haveLo = v, true
				}
			}
			switch l.timeOp {
			case "<", "<=", "=":
				v := l.instant
				if l.timeOp == "<" {
					v--
				}
				if !haveHi || v < hi {
					hi, haveHi = v, true
				}
			}
		}
		wantMin, wantMax := time.Unix(0, influxql.MinTime), time.Unix(0, influxql.MaxTime)
		if haveLo {
			wantMin = time.Unix(0, lo)
		}
		if haveHi {
			wantMax = time.Unix(0, hi)
		}
		if !tr.MinTime().Equal(wantMin) || !tr.MaxTime().Equal(wantMax) || haveLo == tr.Min.IsZero() || haveHi == tr.Max.IsZero() {
			r.Violation("time-range-bounds", det(fmt.Sprintf("range [%s, %s] (zero min %v, zero max %v), want [%s, %s]", tr.MinTime().UTC().Format(time.RFC3339Nano), tr.MaxTime().UTC().Format(time.RFC3339Nano), tr.Min.IsZero(), tr.Max.IsZero(), wantMin.UTC().Format(time.RFC3339Nano), wantMax.UTC().Format(time.RFC3339Nano))))
			return
		}
		if tr.MinTimeNano() != wantMin.UnixNano() || tr.MaxTimeNano() != wantMax.UnixNano() {
			r.Violation("time-range-nano-accessors", det(fmt.Sprintf("MinTimeNano/MaxTimeNano = %d/%d, want %d/%d", tr.MinTimeNano(), tr.MaxTimeNano(), wantMin.UnixNano(), wantMax.UnixNano())))
			return
		}
		local["bounds-exact"]++
	}
	pts := tcPoints(leaves, nil)
	for _, p := range pts {
		want := cond.eval(p)
		pt := time.Unix(0, p.t)
		inT := !pt.Before(tr.MinTime()) && !pt.After(tr.MaxTime())
		inN := p.t >= tr.MinTimeNano() && p.t <= tr.MaxTimeNano()
		rs := true
		if resid != nil {
			var pan bool
			pan, _, _ = mon.Try(func() { rs = influxql.EvalBool(resid, p.valuer()) })
			if pan {
				r.Violation("panic-evaluating-residual", det("residual "+resid.String()))
				return
			}
		}
		local["point-checks"]++
		if want != (inT && rs) {
			r.Violation("split-changes-meaning", det(fmt.Sprintf("point t=%d host=%s region=%s n=%d x=%v: condition is %v but in-range=%v and residual(%v)=%v; range [%s, %s]", p.t, p.host, p.region, p.n, p.x, want, inT, resid, rs, tr.MinTime().UTC().Format(time.RFC3339Nano), tr.MaxTime().UTC().Format(time.RFC3339Nano))))
			return
		}
		if inN != inT {
			if overflow && r.Known("nano-wrap-at-int64-extreme", text) {
				local["known.nano-wrap"]++
				return
			}
			r.Violation("nano-accessors-disagree", det(fmt.Sprintf("point t=%d: in range by MinTime()/MaxTime()=%v but by MinTimeNano()/MaxTimeNano()=%v (%d, %d)", p.t, inT, inN, tr.MinTimeNano(), tr.MaxTimeNano())))
			return
		}
	}
	if resid == nil {
		local["residual-nil"]++
	}
	local["ok"]++
}

func checkC10(c *Ctx) (string, bool, []string) {
	r := c.R
	rule := "conditions = random conjunction trees (any nesting of AND and parentheses) of 0-4 time bounds and 0-3 other sub-trees (which may contain OR); a time bound is time (any letter case) on either side of = < <= > >= against integer nanoseconds, RFC3339Nano (UTC or with offset), date, date-time, a duration, now(), now() +- d, with instants from a boundary set (epoch +-1ns, MinTime+1, MaxTime, int64 extremes); valuer nil / NowValuer in 3 zones and in two fixed zones that share a name / MultiValuer / clock and zone through stacked valuers. Each condition is evaluated by the reference on every bound +-{0,1ns} and far timestamps x all tag and field combinations (16 per timestamp) and compared with in-range AND residual; the range bounds are compared exactly; the condition handed in must be unchanged afterwards and splitting it a second time must give the same range and residual. Non-trivial = every condition; distinct by (text, valuer kind)."
	assume := []string{"float bounds and != on time are outside the stated domain and not generated", "now() is used only with a clock-carrying valuer"}
	if c.Replay != nil {
		c10One(c, replayInt(c, "idx"), map[string]int64{})
		return rule, false, assume
	}
	// fixed witness of the known finding
	n := c.N(20000, 1000000)
	c10Intersect(c)
	mon.Parallel(n, c.Workers, func(i int) {
		local := map[string]int64{}
		c10One(c, i, local)
		if i < 5 {
			_, v, cond := c10Setup(c.Seed, i)
			r.Sample(map[string]string{"condition": cond.render(), "valuer": fmt.Sprintf("%T", v)})
		}
		r.MergeCounts(local)
	})
	for k := 0; k <= 4; k++ {
		r.Require(r.Counter(fmt.Sprintf("time-leaves.%d", k)) > 0, fmt.Sprintf("no condition with %d time bounds", k))
	}
	r.Require(r.Counter("ok") > 0 && r.Counter("bounds-exact") > 0 && r.Counter("residual-nil") > 0, "nothing observed")
	return rule, false, assume
}
