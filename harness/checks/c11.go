package checks

import (
	"fmt"
	"regexp"
	"sort"
	"strings"

	"github.com/influxdata/influxql"
	"verifharness/mon"
)

// C11 — regex-to-literal rewriting preserves which strings match.
//
// Oracle: language comparison by enumeration. The original condition is
// evaluated with EvalBool (Go's regexp matcher) and the rewritten one with
// its equality tests, over every candidate string up to a length bound.

var c11alpha = []string{"a", "b", "c", "z", "A", "\n", "0", "1"}

func c11Candidates(maxLen int) []string {
	out := []string{""}
	prev := []string{""}
	for l := 1; l <= maxLen; l++ {
		var cur []string
		for _, p := range prev {
			for _, a := range c11alpha {
				cur = append(cur, p+a)
			}
		}
		out = append(out, cur...)
		prev = cur
	}
	return out
}

func regexLit(src string) string { return "/" + strings.ReplaceAll(src, "/", `\/`) + "/" }

// collectLits returns the string literals compared against tag `h` in e and
// whether any regex operator remains.
func collectLits(e influxql.Expr) (lits []string, regexLeft bool) {
	influxql.WalkFunc(e, func(n influxql.Node) {
		if b, ok := n.(*influxql.BinaryExpr); ok {
			if b.Op == influxql.EQREGEX || b.Op == influxql.NEQREGEX {
				regexLeft = true
			}
			if s, ok := b.RHS.(*influxql.StringLiteral); ok && (b.Op == influxql.EQ || b.Op == influxql.NEQ) {
				lits = append(lits, s.Val)
			}
		}
	})
	return
}

// c11One checks one single-predicate condition `h <op> /src/`.
func c11One(c *Ctx, op, src string, cands []string, extra []string, local map[string]int64) {
	r := c.R
	text := "SELECT v FROM m WHERE h " + op + " " + regexLit(src)
	det := func(why string) map[string]interface{} {
		return map[string]interface{}{"sub": "single", "input": text, "op": op, "regex": src, "why": why}
	}
	var viol func()
	p, pv, stk := mon.Try(func() {
		st, err := influxql.ParseStatement(text)
		if err != nil {
			local["regex-rejected-by-parser"]++
			return
		}
		sel := st.(*influxql.SelectStatement)
		orig := influxql.CloneExpr(sel.Condition)
		before := dumpOf(orig)
		sel.RewriteRegexConditions()
		r.Eval(1)
		local["conditions"]++
		if dumpOf(orig) != before {
			viol = func() { r.Violation("rewrite-touched-the-clone", det("clone of the condition changed")) }
			return
		}
		after := sel.Condition
		if dumpOf(after) == before {
			local["left-as-is"]++
			return
		}
		local["rewritten"]++
		lits, regexLeft := collectLits(after)
		if regexLeft {
			viol = func() {
				r.Violation("half-rewritten", det("rewritten condition still has a regex operator: "+after.String()))
			}
			return
		}
		if len(lits) > 100 {
			viol = func() {
				r.Violation("more-than-100-literals", det(fmt.Sprintf("%d literals substituted", len(lits))))
			}
			return
		}
		r.CountMax("max-literals", int64(len(lits)))
		re := regexp.MustCompile(src)
		set := map[string]bool{}
		for _, l := range lits {
			set[l] = true
			if !re.MatchString(l) {
				viol = func() {
					r.Violation("literal-not-in-language", det(fmt.Sprintf("substituted literal %q is not matched by the regex; rewritten: %s", l, trunc(after.String(), 300))))
				}
				return
			}
		}
		all := append(append([]string{}, cands...), extra...)
		all = append(all, lits...)
		for _, s := range all {
			m := map[string]interface{}{"h": s}
			// (an evaluation that memoised by a joined "pattern/value" text would
			// confuse this pair with every other split of the same text: make
			// those evaluations first)
			if key := src + "/" + s; strings.Count(key, "/") > 1 && len(key) < 64 {
				for j := 0; j < len(key); j++ {
					if key[j] == '/' && j != len(src) {
						if re2, err := regexp.Compile(key[:j]); err == nil {
							influxql.EvalBool(&influxql.BinaryExpr{Op: influxql.EQREGEX, LHS: &influxql.VarRef{Val: "h"}, RHS: &influxql.RegexLiteral{Val: re2}}, map[string]interface{}{"h": key[j+1:]})
						}
					}
				}
			}
			a, b := influxql.EvalBool(orig, m), influxql.EvalBool(after, m)
			if want := re.MatchString(s) == (op == "=~"); a != want {
				ss := s
				viol = func() {
					r.Violation("language-changed", det(fmt.Sprintf("value %q: the original condition evaluates to %v, Go's regexp matcher says %v", ss, a, want)))
				}
				return
			}
			if a != b {
				known := ""
				if strings.Contains(s, "\n") && strings.Contains(src, "(?m") {
					// multi-line anchors accepted as text anchors: only strings with a line break disagree
					known = "multiline-anchor"
				}
				if known != "" && r.Known(known, text) {
					local["known.multiline"]++
					return
				}
				ss := s
				viol = func() {
					r.Violation("language-changed", det(fmt.Sprintf("value %q: original %v, rewritten %v; rewritten condition: %s", ss, a, b, trunc(after.String(), 300))))
				}
				return
			}
			local["evaluations"]++
		}
		local["rewritten-and-equal"]++
		// the caller goes on to edit its own, rewritten statement: every literal
		// of it. Statements rewritten later must not see that.
		influxql.WalkFunc(after, func(n influxql.Node) {
			if l, ok := n.(*influxql.StringLiteral); ok {
				l.Val += "~edited"
			}
		})
	})
	if p {
		d := det(fmt.Sprint(pv))
		d["stack"] = stk
		r.Violation("panic", d)
		return
	}
	if viol != nil {
		viol()
	}
}

// c11Multi checks a condition of several predicates.
func c11Multi(c *Ctx, cond string, tags []string, cands []string, rg *mon.Rng, local map[string]int64) {
	r := c.R
	text := "SELECT v FROM m WHERE " + cond
	var viol func()
	p, pv, stk := mon.Try(func() {
		st, err := influxql.ParseStatement(text)
		if err != nil {
			local["regex-rejected-by-parser"]++
			return
		}
		sel := st.(*influxql.SelectStatement)
		orig := influxql.CloneExpr(sel.Condition)
		sel.RewriteRegexConditions()
		r.Eval(1)
		local["multi-conditions"]++
		if dumpOf(sel.Condition) == dumpOf(orig) {
			local["left-as-is"]++
			return
		}
		var printed influxql.Expr
		if pe, perr := influxql.ParseExpr(sel.Condition.String()); perr == nil {
			printed = pe
		} else {
			viol = func() {
				r.Violation("language-changed", map[string]interface{}{"sub": "multi", "input": text, "cond": cond, "why": fmt.Sprintf("the rewritten condition prints as %q, which does not parse: %v", trunc(sel.Condition.String(), 300), perr)})
			}
			return
		}
		// value pool: every literal the rewrite put into the condition, the short
		// strings over the alphabet, then random longer ones; two tags, so all
		// pairs from the pool are tried (sampled when there are too many)
		lits, _ := collectLits(sel.Condition)
		pool := append([]string{"", "a", "b", "c", "ab", "ba", "aa", "bb", "bc", "ac", "abc", "z", "A", "\n", "a\n"}, lits...)
		var pairs [][2]string
		for _, x := range pool {
			for _, y := range pool {
				pairs = append(pairs, [2]string{x, y})
			}
		}
		if len(pairs) > 1200 {
			rg.Shuffle(len(pairs), func(i, j int) { pairs[i], pairs[j] = pairs[j], pairs[i] })
			pairs = pairs[:1200]
		}
		for i := 0; i < 200; i++ {
			pairs = append(pairs, [2]string{cands[rg.Intn(len(cands))], cands[rg.Intn(len(cands))]})
		}
		for _, pr := range pairs {
			m := map[string]interface{}{}
			for ti, t := range tags {
				m[t] = pr[ti%2]
			}
			ea := influxql.ValuerEval{Valuer: c11Valuer(m)}
			a, b := ea.EvalBool(orig), ea.EvalBool(sel.Condition)
			if a == b && printed != nil {
				// the rewritten condition as the next reader of its text sees it
				// (SetTimeRange, a log, a remote node): printed and parsed again
				if b2 := ea.EvalBool(printed); b2 != b {
					mm := m
					viol = func() {
						r.Violation("language-changed", map[string]interface{}{"sub": "multi", "input": text, "cond": cond, "why": fmt.Sprintf("values %q: the rewritten condition evaluates to %v, its printed form %q parsed again to %v", mm, b, trunc(sel.Condition.String(), 300), b2)})
					}
					return
				}
			}
			if a != b {
				nl := false
				for _, v := range m {
					if strings.Contains(v.(string), "\n") {
						nl = true
					}
				}
				if nl && strings.Contains(cond, "(?m") && r.Known("multiline-anchor", text) {
					return
				}
				mm := m
				viol = func() {
					r.Violation("language-changed", map[string]interface{}{"sub": "multi", "input": text, "cond": cond, "why": fmt.Sprintf("values %q: original %v, rewritten %v; rewritten: %s", mm, a, b, trunc(sel.Condition.String(), 300))})
				}
				return
			}
			local["evaluations"]++
		}
	})
	if p {
		r.Violation("panic", map[string]interface{}{"sub": "multi", "input": text, "cond": cond, "why": fmt.Sprint(pv), "stack": stk})
		return
	}
	if viol != nil {
		viol()
	}
}

// c11Valuer supplies the tag values and one function, up(s) = upper-case s,
// so that a predicate built on a call has a meaning of its own.
type c11Valuer map[string]interface{}

func (m c11Valuer) Value(k string) (interface{}, bool) { v, ok := m[k]; return v, ok }
func (m c11Valuer) Call(name string, args []interface{}) (interface{}, bool) {
	if name == "up" && len(args) == 1 {
		if s, ok := args[0].(string); ok {
			return strings.ToUpper(s), true
		}
	}
	return nil, false
}

func c11Bodies(limit int) []string {
	atoms := []string{"a", "b", "ab", `\.`, ".", "[ab]", "[a-c]", "[^a]", `\d`, "/", "(a)", "(?:b)", "(a|b)", "(a|b|)", "(ab|c)", "(?i:a)", "(?i:1)",
		"a?", "a*", "a+", "a{2}", "a{1,2}", "a{2,}", "[ab]{2}", "(a|b)?", "(ab)+", "a{3}", "(ab){3}", "a{2,3}", "b{4}", "(a|b){3}", "(?:ab){2}", "(?:ab|ba)", "(?:a|bc)", "((?i)ab)c", "x(?:a|(?i)bc)", "(?:a(?i:b)|c)", "(?:(?:ab|c)|b)", "(?s:.)", "(?U:a+)", `\b`, "^", "$", "(?m:^)", "(?m:$)", "[[:digit:]]", "é", `\x61`, "a|", "()"}
	seen := map[string]bool{}
	var out []string
	add := func(s string) {
		if seen[s] || len(out) >= limit {
			return
		}
		if _, err := regexp.Compile(s); err != nil {
			return
		}
		seen[s] = true
		out = append(out, s)
	}
	add("")
	for _, a := range atoms {
		add(a)
	}
	for _, a := range atoms {
		for _, b := range atoms {
			add(a + b)
			add(a + "|" + b)
		}
	}
	for _, a := range atoms[:20] {
		for _, b := range atoms[:20] {
			for _, d := range atoms[:12] {
				add(a + b + d)
				add("(" + a + "|" + b + ")" + d)
				add(a + "(" + b + "|" + d + ")")
				add("(" + a + b + "){2}" + d)
			}
		}
	}
	return out
}

var c11Prefixes = []string{"", "^", "(?i)^", "(?m)^", "(?s)^", "(?U)^", `\A`, "(?m:^)", "^^", "(?i:^)", `^\b`, "(?sm)^"}
var c11Suffixes = []string{"", "$", `\z`, "(?m:$)", "$$", `\b$`}

func init() { Registry["C11"] = checkC11 }

func checkC11(c *Ctx) (string, bool, []string) {
	r := c.R
	rule := "regex sources = prefix decoration x body x suffix decoration (12 x N x 6, both =~ and !~), bodies enumerated from 49 atoms (literals, classes, groups, alternation with empty branch, ? * + {n} {n,m} {n,}, scoped flags, inner anchors) combined up to 3 deep; alternations and class products of 99/100/101 members; 29 sources with anchors inside the branches of a top-level alternation or inside groups; random conditions of 2-7 predicates on two tags joined by AND/OR with parentheses (half of the regex predicates fully anchored finite languages of 1-4 strings, both polarities, so several rewrites meet in one condition). Each rewritten condition is compared with the original on every string of length <=4 (<=5 on a sixteenth of them in thorough) over {a,b,c,z,A,\\n,0,1} plus every substituted literal. Non-trivial = the rewrite changed the condition; distinct by (operator, regex)."
	assume := []string{"Go's regexp matcher through EvalBool is the meaning of the original condition", "language equality is decided up to the stated string length; substituted literals are checked individually whatever their length"}
	cands := c11Candidates(4)
	cands5 := c11Candidates(c.N(4, 5))
	if c.Replay != nil {
		local := map[string]int64{}
		switch replayStr(c, "sub") {
		case "single":
			c11One(c, replayStr(c, "op"), replayStr(c, "regex"), cands, c11BigCands(), local)
		case "multi":
			c11Multi(c, replayStr(c, "cond"), []string{"h", "g"}, cands, mon.NewRng(c.Seed, "c11.replay", 0), local)
		}
		return rule, false, assume
	}
	bodies := c11Bodies(c.N(2500, 9000))
	type job struct{ op, src string }
	var jobs []job
	for _, b := range bodies {
		for _, pre := range c11Prefixes {
			for _, suf := range c11Suffixes {
				for _, op := range []string{"=~", "!~"} {
					jobs = append(jobs, job{op, pre + b + suf})
				}
			}
		}
	}
	mon.Parallel(len(jobs), c.Workers, func(i int) {
		local := map[string]int64{}
		j := jobs[i]
		before := local["rewritten"]
		cs := cands
		if i%16 == 0 {
			cs = cands5 // the deeper length bound on a sixteenth of the regexes (thorough)
		}
		c11One(c, j.op, j.src, cs, nil, local)
		if local["rewritten"] > before {
			r.DistinctStr(j.op + j.src)
			if i%3001 == 0 {
				r.Sample(map[string]string{"condition": "h " + j.op + " " + regexLit(j.src)})
			}
		}
		r.MergeCounts(local)
	})
	r.Count("enumerated.regexes", int64(len(jobs)))
	// large alternations and class products
	mk := func(n int) string {
		var parts []string
		for i := 0; i < n; i++ {
			parts = append(parts, fmt.Sprintf("%c%c", 'a'+i/12, 'a'+i%12))
		}
		return "^(" + strings.Join(parts, "|") + ")$"
	}
	big := []string{mk(99), mk(100), mk(101), "^[a-j][a-j]$", "^[a-j][a-k]$", "^[a-k][a-j]$", "^[a-e][a-e][a-d]$", "^[a-e][a-e][a-e]$", "^[a-e]{3}$",
		"^([a-j]|k)[a-j]$", "^[a-d][a-e][a-e]$", "^[a-d][a-e]([a-e]|x)$", "^(a|b)(c|d)(e|f)(g|h)(i|j)(k|l)(m|n)$", "^(a|b)(c|d)(e|f)(g|h)(i|j)(k|l)$", "^[a-z][a-c]$", "^[a-z]$", "^[a-zA-Z0-9]$"}
	// whole sources that do not fit the prefix x body x suffix scheme: anchors
	// inside the branches of a top-level alternation, in groups, repeated
	whole := []string{"^$", "^$|^a$", "^a$|^$", "^a$|^b$", "^(a|b)$|^$", "^a$|^$|^b$", "^$|^$", "^a|b$", "^a$|b", "a|^b$", "(^a$)|(^b$)", "(^a$|^$)", "^(^a$|^b$)$", "(?:^a$)", "^(?:a$|b$)", "^(?:^a|^b)$",
		"^a$|^a$", "^ab$|^a$|^$", "^$|a", "^(a|^$)$", "(^)(a)($)", "^a$$|^^b$", "\\Aa\\z|\\Ab\\z", "^a\\z|\\Ab$", "(?i)^a$|^b$", "^a$|(?i)^b$", "(?m)^a$|^b$", "^[ab]$|^c$", "^a?$|^b$", "^a{2}$|^$",
		// class ranges that cross a UTF-8 width boundary (1|2, 2|3, 3|4 bytes)
		"^[\\x{7e}-\\x{81}]$", "^srv[x-\\x{a1}]$", "^[\\x{7fd}-\\x{802}]x$", "^[\\x{fffe}-\\x{10001}]$", "^[a\\x{80}\\x{800}\\x{10000}]$", "^[\\x{7f}-\\x{9f}]{2}$",
		// alternations whose branches stand for several strings each, around the 100-literal limit
		"^(a[a-z]|b[a-z]|c[a-z]|d[a-z])$", "^(a[a-y]|b[a-y]|c[a-y]|d[a-y])$", "^(rack[0-8][0-9]|spare[0-9][0-9])$", "^([a-j][a-i]|[a-j])$", "^([a-j][a-i]|[a-k])$", "^(x|[a-j][a-j])$", "^([a-j][a-j]|x)$", "^$", "^()$", "^$"}
	// literals shaped like timestamps, judged also on other spellings of the
	// same instant (to the regex they are different strings)
	dateCands := []string{"2019-01-01", "2019-01-01T00:00:00Z", "2019-01-01 00:00:00", "2019-01-01T00:00:00+00:00", "2019-01-01T01:00:00+01:00", "2019-1-1", "2019-01-01T00:00:00.000Z", "1546300800000000000"}
	for _, src := range []string{"^a/b$", "^a/b/c$", "^/$", "^a/(b|c)$"} {
		for _, op := range []string{"=~", "!~"} {
			local := map[string]int64{}
			c11One(c, op, src, nil, []string{"a/b", "b$/a/b", "a", "/b", "a/b/c", "/", "a/c", "c$/a/b/c", "", "a/"}, local)
			local["slash-sources"]++
			r.DistinctStr(op + src)
			r.MergeCounts(local)
		}
	}
	for _, src := range []string{"^2019-01-01$", "^2019-01-01T00:00:00Z$", "^(2019-01-01|2019-01-02)$", "^2019-01-01 00:00:00$"} {
		for _, op := range []string{"=~", "!~"} {
			local := map[string]int64{}
			c11One(c, op, src, nil, dateCands, local)
			local["date-shaped-literals"]++
			r.DistinctStr(op + src)
			r.MergeCounts(local)
		}
	}
	for _, src := range whole {
		for _, op := range []string{"=~", "!~"} {
			local := map[string]int64{}
			c11One(c, op, src, cands, nil, local)
			local["whole-sources"]++
			r.DistinctStr(op + src)
			r.MergeCounts(local)
		}
	}
	bc := c11BigCands()
	for _, src := range big {
		for _, op := range []string{"=~", "!~"} {
			local := map[string]int64{}
			c11One(c, op, src, nil, bc, local)
			local["big-alternations"]++
			r.DistinctStr(op + src)
			r.MergeCounts(local)
		}
	}
	// multi-predicate conditions
	nmulti := c.N(5000, 200000)
	mon.Parallel(nmulti, c.Workers, func(i int) {
		rg := mon.NewRng(c.Seed, "c11.multi", i)
		local := map[string]int64{}
		pred := func() string {
			tag := rg.Pick("h", "g")
			switch rg.Intn(7) {
			case 0:
				return tag + " = '" + rg.Pick("a", "ab", "b") + "'"
			case 1:
				return tag + " != '" + rg.Pick("a", "ab", "") + "'"
			case 5:
				// a predicate on a function of the tag: not a regex test, must stay as it is
				local["multi.call-predicate"]++
				return "up(" + tag + ") " + rg.Pick("=", "!=") + " '" + rg.Pick("A", "AB", "B", "") + "'"
			case 2, 3, 4:
				// fully anchored finite languages of 1-4 strings: several rewritten
				// predicates of both polarities meet in one condition
				local["multi.rewritable-shaped"]++
				return tag + " " + rg.Pick("=~", "!~") + " " + regexLit("^"+rg.Pick("a", "b", "(a|b)", "[ab]c?", "(ab|b)", "a?b", "(a|)b", "(?:a|b){2}", "a{2}", "(a|b|ab)", "[a-c]", "")+"$")
			}
			return tag + " " + rg.Pick("=~", "!~") + " " + regexLit(c11Prefixes[rg.Intn(len(c11Prefixes))]+bodies[rg.Intn(len(bodies))]+c11Suffixes[rg.Intn(len(c11Suffixes))])
		}
		n := rg.Range(2, 4)
		cond := pred()
		if rg.P(0.15) {
			cond += rg.Pick(" = false", " = true", " != true")
			local["multi.test-compared-with-a-boolean"]++
		}
		for k := 1; k < n; k++ {
			nx := pred()
			if rg.P(0.15) {
				nx += rg.Pick(" = false", " = true", " != false")
			}
			if rg.P(0.4) {
				nx = "(" + nx + " " + rg.Pick("AND", "OR") + " " + pred() + ")"
			}
			cond += " " + rg.Pick("AND", "OR") + " " + nx
		}
		c11Multi(c, cond, []string{"h", "g"}, cands, rg, local)
		r.DistinctStr("multi|" + cond)
		r.MergeCounts(local)
	})
	r.Require(r.Counter("rewritten-and-equal") > 0, "no regex was ever rewritten")
	r.Require(r.Counter("left-as-is") > 0, "no regex was ever left alone")
	// (how large a set the library chooses to rewrite is its own business below
	// the limit of 100: the floor asks for multi-literal rewrites, the largest
	// one observed is reported as max-literals)
	r.Require(r.Counter("max-literals") >= 2, "no regex was rewritten into more than one literal")
	return rule, false, assume
}

func c11BigCands() []string {
	var out []string
	letters := "abcdefghijklmnxz"
	for _, a := range letters {
		out = append(out, string(a))
		for _, b := range letters {
			out = append(out, string(a)+string(b))
			for _, d := range "abcdex" {
				out = append(out, string(a)+string(b)+string(d))
			}
		}
	}
	out = append(out, "", "acegikm", "bdfhjln", "acegik", "bdfhjl", "aceg", "A", "Z", "0", "9", "aa\n", "\naa")
	sort.Strings(out)
	return out
}
