package checks

import (
	"fmt"
	"strings"

	"github.com/influxdata/influxql"
	"verifharness/mon"
)

// C03 — binary operators group by precedence and associate to the left;
// parentheses override both and are kept as explicit nodes; print+parse keeps
// the grouping.
//
// Oracle: an independent precedence-climbing grouper over the harness's own
// token list, with the five levels written down from the property statement.

type c03op struct {
	spell string
	canon string // canonical operator name (token String())
	level int    // 5 tightest … 1 loosest
	regex bool
	word  bool
}

var c03ops = []c03op{
	{"*", "*", 5, false, false}, {"/", "/", 5, false, false}, {"%", "%", 5, false, false}, {"&", "&", 5, false, false},
	{"+", "+", 4, false, false}, {"-", "-", 4, false, false}, {"|", "|", 4, false, false}, {"^", "^", 4, false, false},
	{"=", "=", 3, false, false}, {"!=", "!=", 3, false, false}, {"<>", "!=", 3, false, false}, {"<", "<", 3, false, false},
	{"<=", "<=", 3, false, false}, {">", ">", 3, false, false}, {">=", ">=", 3, false, false},
	{"=~", "=~", 3, true, false}, {"!~", "!~", 3, true, false},
	{"AND", "AND", 2, false, true}, {"OR", "OR", 1, false, true},
}

// token kinds of the harness's own expression language
const (
	tkVar = iota
	tkNegVar
	tkRegex
	tkOp
	tkLP
	tkRP
)

// c03names: operand names whose printed form depends on the quoting helpers.
var c03names = []struct{ spell, val string }{
	{`"or"`, "or"}, {`"and"`, "and"}, {`"AND"`, "AND"}, {`"Or"`, "Or"}, {`"true"`, "true"}, {`"FALSE"`, "FALSE"}, {`"not"`, "not"}, {`"in"`, "in"}, {`"select"`, "select"}, {`"Name"`, "Name"}, {`"KEY"`, "KEY"},
	{`"a\\"`, `a\`}, {`"b\\c"`, `b\c`}, {`"q\"t"`, `q"t`}, {`"sp ace"`, "sp ace"}, {`"1st"`, "1st"}, {`"a.b.c.d"`, "a.b.c.d"}, {`"é"`, "é"}, {`"x-y"`, "x-y"}, {`"a/b"`, "a/b"},
}

type c03tok struct {
	kind int
	text string // variable name (optionally with a ::type suffix) / regex source / sign of a group
	op   c03op
	sign string // tkNegVar: "-" (default) or "+"
	val  string // the name the operand denotes, when it is not spelled plainly
}

func (t c03tok) name() string {
	if t.val != "" {
		return t.val
	}
	return t.text
}

func (t c03tok) signText() string {
	if t.sign == "" {
		return "-"
	}
	return t.sign
}

func signFactor(sign string) string {
	if sign == "+" {
		return "1"
	}
	return "-1"
}

// refParse is the reference grouper: precedence climbing, left associative.
type c03ref struct {
	toks []c03tok
	pos  int
}

func (p *c03ref) atom() string {
	t := p.toks[p.pos]
	p.pos++
	switch t.kind {
	case tkVar:
		return t.name()
	case tkNegVar:
		return "(" + signFactor(t.signText()) + " * " + t.name() + ")"
	case tkRegex:
		return "/" + t.text + "/"
	case tkLP:
		inner := p.expr(1)
		p.pos++ // RP
		if t.text == "-" || t.text == "+" {
			return "(" + signFactor(t.text) + " * [" + inner + "])"
		}
		return "[" + inner + "]"
	}
	panic("harness: bad token in reference grouper")
}

func (p *c03ref) expr(minLevel int) string {
	lhs := p.atom()
	for p.pos < len(p.toks) && p.toks[p.pos].kind == tkOp && p.toks[p.pos].op.level >= minLevel {
		op := p.toks[p.pos].op
		p.pos++
		rhs := p.expr(op.level + 1) // left associative: the right side binds strictly tighter
		lhs = "(" + lhs + " " + op.canon + " " + rhs + ")"
	}
	return lhs
}

// shapeOf renders the parsed tree in the same notation.
func shapeOf(e influxql.Expr) string {
	switch e := e.(type) {
	case *influxql.BinaryExpr:
		return "(" + shapeOf(e.LHS) + " " + e.Op.String() + " " + shapeOf(e.RHS) + ")"
	case *influxql.ParenExpr:
		return "[" + shapeOf(e.Expr) + "]"
	case *influxql.VarRef:
		if e.Type != influxql.Unknown {
			return e.Val + "::" + e.Type.String()
		}
		return e.Val
	case *influxql.RegexLiteral:
		return "/" + e.Val.String() + "/"
	case *influxql.IntegerLiteral:
		return fmt.Sprint(e.Val)
	case *influxql.Call:
		var as []string
		for _, a := range e.Args {
			as = append(as, shapeOf(a))
		}
		return e.Name + "{" + strings.Join(as, ", ") + "}"
	case nil:
		return "<nil>"
	default:
		return fmt.Sprintf("<%T %s>", e, e.String())
	}
}

func renderC03(toks []c03tok, compact bool) string {
	var b strings.Builder
	for i, t := range toks {
		sep := " "
		if compact {
			sep = ""
		}
		switch t.kind {
		case tkVar:
			b.WriteString(t.text)
		case tkNegVar:
			b.WriteString(t.signText() + t.text)
		case tkRegex:
			b.WriteString("/" + t.text + "/")
		case tkLP:
			b.WriteString(t.text + "(")
		case tkRP:
			b.WriteString(")")
		case tkOp:
			if t.op.word || !compact {
				b.WriteString(" " + t.op.spell + " ")
			} else {
				b.WriteString(t.op.spell)
			}
			continue
		}
		_ = i
		_ = sep
	}
	return b.String()
}

// neutralise wraps every negated operand (variable or group) in explicit
// parentheses.
func neutraliseC03(toks []c03tok) []c03tok {
	var out []c03tok
	var stack []bool // for every open paren: does its close need an extra ")"
	for _, t := range toks {
		switch {
		case t.kind == tkNegVar:
			out = append(out, c03tok{kind: tkLP}, t, c03tok{kind: tkRP})
		case t.kind == tkLP:
			neg := t.text == "-" || t.text == "+"
			if neg {
				out = append(out, c03tok{kind: tkLP})
			}
			out = append(out, t)
			stack = append(stack, neg)
		case t.kind == tkRP:
			out = append(out, t)
			if n := len(stack); n > 0 {
				if stack[n-1] {
					out = append(out, c03tok{kind: tkRP})
				}
				stack = stack[:n-1]
			}
		default:
			out = append(out, t)
		}
	}
	return out
}

func hasNeg(toks []c03tok) bool {
	for _, t := range toks {
		if t.kind == tkNegVar || (t.kind == tkLP && t.text != "") {
			return true
		}
	}
	return false
}

// buildChain makes operands/ops tokens for the op index list, with optional
// paren ranges over operand indexes and negated operand positions.
func buildChain(ops []int, parens [][2]int, neg map[int]bool) []c03tok {
	return buildChainNP(ops, parens, neg, nil)
}

// buildChainNP additionally negates the parenthesised ranges whose index is in negParen.
func buildChainNP(ops []int, parens [][2]int, neg map[int]bool, negParen map[int]bool) []c03tok {
	return buildChainX(ops, parens, neg, negParen, nil, nil)
}

// buildChainX: plus[i] turns the sign of a signed operand i (or of signed
// group i) into an explicit plus; cast[i] appends a ::type suffix to operand i.
func buildChainX(ops []int, parens [][2]int, neg map[int]bool, negParen map[int]bool, plus map[int]bool, cast map[int]string) []c03tok {
	var toks []c03tok
	n := len(ops) + 1
	for i := 0; i < n; i++ {
		for pi, pr := range parens {
			if pr[0] == i {
				t := c03tok{kind: tkLP}
				if negParen[pi] && !(i > 0 && c03ops[ops[i-1]].regex) {
					t.text = "-"
					if plus[-1-pi] {
						t.text = "+"
					}
				}
				toks = append(toks, t)
			}
		}
		isRegex := i > 0 && c03ops[ops[i-1]].regex
		switch {
		case isRegex:
			toks = append(toks, c03tok{kind: tkRegex, text: fmt.Sprintf("r%d", i)})
		case neg[i]:
			t := c03tok{kind: tkNegVar, text: fmt.Sprintf("v%d", i) + cast[i]}
			if plus[i] {
				t.sign = "+"
			}
			toks = append(toks, t)
		default:
			toks = append(toks, c03tok{kind: tkVar, text: fmt.Sprintf("v%d", i) + cast[i]})
		}
		for _, pr := range parens {
			if pr[1] == i {
				toks = append(toks, c03tok{kind: tkRP})
			}
		}
		if i < n-1 {
			toks = append(toks, c03tok{kind: tkOp, op: c03ops[ops[i]]})
		}
	}
	return toks
}

// parensValid: a paren range may not start on a regex operand (the regex
// operand belongs to its operator) unless it is a single operand — we only
// use ranges with i<j, so the range start must not be a regex operand.
func parensValid(ops []int, parens [][2]int) bool {
	for _, pr := range parens {
		if pr[0] > 0 && c03ops[ops[pr[0]-1]].regex {
			return false
		}
	}
	return true
}

func c03One(c *Ctx, toks []c03tok, compact bool, local map[string]int64) {
	r := c.R
	text := renderC03(toks, compact)
	ref := &c03ref{toks: toks}
	want := ref.expr(1)
	var e influxql.Expr
	var err error
	if p, pv, st := mon.Try(func() { e, err = influxql.ParseExpr(text) }); p {
		r.Violation("panic-in-ParseExpr", map[string]interface{}{"input": text, "why": fmt.Sprint(pv), "stack": st})
		return
	}
	r.Eval(1)
	local["chains"]++
	if err != nil {
		r.Violation("chain-rejected", map[string]interface{}{"input": text, "why": err.Error()})
		return
	}
	got := shapeOf(e)
	if got != want {
		r.Violation("wrong-grouping", map[string]interface{}{"input": text, "why": "want " + want + " got " + got})
		return
	}
	local["grouping-ok"]++
	if mon.Hash64(text)%29 == 0 {
		// just before this print, on this goroutine: a print that does not
		// finish (a hand-built node without its right operand panics in String,
		// the caller recovers) - what it left behind must not show in the next
		mon.Try(func() {
			_ = (&influxql.BinaryExpr{Op: influxql.ADD, LHS: &influxql.VarRef{Val: "left_behind"}}).String()
		})
		local["aborted-prints-before-a-print"]++
	}
	// round trip
	var printed string
	var e2 influxql.Expr
	if p, pv, st := mon.Try(func() { printed = e.String(); e2, err = influxql.ParseExpr(printed) }); p {
		r.Violation("panic-in-roundtrip", map[string]interface{}{"input": text, "why": fmt.Sprint(pv), "stack": st})
		return
	}
	if err != nil || shapeOf(e2) != got {
		why := fmt.Sprintf("printed %q re-parses to %s, original %s", printed, shapeOf(e2), got)
		if err != nil {
			why = fmt.Sprintf("printed %q does not re-parse: %v", printed, err)
		}
		// delta attribution for the known unary-minus regrouping
		if hasNeg(toks) {
			nt := renderC03(neutraliseC03(toks), false)
			if e3, err3 := influxql.ParseExpr(nt); err3 == nil {
				if e4, err4 := influxql.ParseExpr(e3.String()); err4 == nil && shapeOf(e4) == shapeOf(e3) {
					if r.Known("unary-minus-regroup", text) {
						local["roundtrip-known-unary-minus"]++
						return
					}
				}
			}
		}
		r.Violation("roundtrip-regroups", map[string]interface{}{"input": text, "why": why})
		return
	}
	local["roundtrip-ok"]++
	// the same chain as a call argument: bare, in one group, in two groups
	if mon.Hash64(text)%5 == 0 && !compact {
		wt := "fn(" + text + ", (" + text + "), ((" + text + ")))"
		ww := "fn{" + want + ", [" + want + "], [[" + want + "]]}"
		var ce influxql.Expr
		var cerr error
		if p, pv, st := mon.Try(func() { ce, cerr = influxql.ParseExpr(wt) }); p {
			r.Violation("panic-in-ParseExpr", map[string]interface{}{"input": wt, "why": fmt.Sprint(pv), "stack": st})
			return
		}
		r.Eval(1)
		if cerr != nil {
			r.Violation("chain-rejected", map[string]interface{}{"input": wt, "why": cerr.Error()})
			return
		}
		if g := shapeOf(ce); g != ww {
			r.Violation("wrong-grouping", map[string]interface{}{"input": wt, "why": "want " + ww + " got " + g})
			return
		}
		if e2, err2 := influxql.ParseExpr(ce.String()); err2 != nil || shapeOf(e2) != ww {
			r.Violation("roundtrip-regroups", map[string]interface{}{"input": wt, "why": fmt.Sprintf("printed %q re-parses to %s (err %v), original %s", ce.String(), shapeOf(e2), err2, ww)})
			return
		}
		local["as-call-arguments"]++
	}
}

// c03Optional: spellings the grammar does not promise (a sign directly after a
// sign). Nothing is claimed when the parser rejects them; when it accepts one,
// print + parse must keep whatever grouping it built.
func c03Optional(c *Ctx, text string, local map[string]int64) {
	r := c.R
	var e, e2 influxql.Expr
	var err, err2 error
	var printed string
	if p, pv, st := mon.Try(func() {
		e, err = influxql.ParseExpr(text)
		if err == nil {
			printed = e.String()
			e2, err2 = influxql.ParseExpr(printed)
		}
	}); p {
		r.Violation("panic-in-ParseExpr", map[string]interface{}{"sub": "optional", "input": text, "why": fmt.Sprint(pv), "stack": st})
		return
	}
	r.Eval(1)
	if err != nil {
		local["optional.rejected"]++
		return
	}
	local["optional.accepted"]++
	if err2 != nil || shapeOf(e2) != shapeOf(e) {
		why := fmt.Sprintf("printed %q re-parses to %s, original %s", printed, shapeOf(e2), shapeOf(e))
		if err2 != nil {
			why = fmt.Sprintf("printed %q does not re-parse: %v", printed, err2)
		}
		r.Violation("roundtrip-regroups", map[string]interface{}{"sub": "optional", "input": text, "why": why})
	}
}

func init() { Registry["C03"] = checkC03 }

// c03State: grouping must not depend on what the objects involved went
// through before. (a) One parser that has failed 300000 times (a stream
// consumer that carries on after syntax errors) parses a valid chain like a
// new one. (b) A tree printed once, edited in place, and printed again prints
// like a fresh copy of the edited tree - for groups of a few bytes up to 40 KB.
func c03State(c *Ctx) {
	r := c.R
	// (a)
	toks := buildChain([]int{4, 0, 5, 1, 17, 18, 8, 6, 3}, nil, nil)
	chain := renderC03(toks, false)
	{
		want := (&c03ref{toks: toks}).expr(1)
		text := strings.Repeat("a + ; ", 700000) + "; " + chain
		var got string
		fails := 0
		if p, pv, stk := mon.Try(func() {
			ps := influxql.NewParser(strings.NewReader(text))
			// (a failed call may or may not have consumed the separator: skip to
			// the next one either way; the text is long enough for 300000 failures)
			for fails < 300000 {
				if _, err := ps.ParseExpr(); err != nil {
					fails++
				}
				tok := influxql.ILLEGAL
				for tok != influxql.SEMICOLON && tok != influxql.EOF {
					tok, _, _ = ps.ScanIgnoreWhitespace()
				}
				if tok == influxql.EOF {
					return
				}
			}
			// on to the end of the failing part: two separators in a row
			prev := influxql.ILLEGAL
			for {
				tok, _, _ := ps.ScanIgnoreWhitespace()
				if tok == influxql.EOF {
					return
				}
				if tok == influxql.SEMICOLON && prev == influxql.SEMICOLON {
					break
				}
				prev = tok
			}
			e, err := ps.ParseExpr()
			if err != nil {
				got = "error: " + err.Error()
			} else {
				got = shapeOf(e)
			}
		}); p {
			r.Violation("panic-in-ParseExpr", map[string]interface{}{"input": trunc(text, 200), "why": fmt.Sprint(pv), "stack": stk})
		} else if got != want {
			r.Violation("wrong-grouping", map[string]interface{}{"input": chain, "why": fmt.Sprintf("after %d failed ParseExpr calls on the same parser the chain parses to %s, want %s", fails, got, want)})
		} else {
			r.Count("parser-reused-after-300000-failed-expressions", 1)
		}
		r.Eval(1)
	}
	// (b)
	for _, n := range []int{1, 40, 120, 2000} {
		var parts []string
		for i := 0; i < n; i++ {
			parts = append(parts, fmt.Sprintf("host = 'srv%04d'", i))
		}
		text := "(" + strings.Join(parts, " OR ") + ") AND x / -y > 1 AND (a + b) * c = d"
		e, err := influxql.ParseExpr(text)
		if err != nil {
			r.Violation("chain-rejected", map[string]interface{}{"input": trunc(text, 300), "why": err.Error()})
			continue
		}
		first := e.String()
		for step, edit := range []func(){
			func() {
				influxql.WalkFunc(e, func(nd influxql.Node) {
					if v, ok := nd.(*influxql.VarRef); ok && v.Val == "host" {
						v.Val = "region"
					}
				})
			},
			func() {
				influxql.WalkFunc(e, func(nd influxql.Node) {
					if b, ok := nd.(*influxql.BinaryExpr); ok && b.Op == influxql.OR {
						b.Op = influxql.AND
					}
				})
			},
			func() {
				influxql.WalkFunc(e, func(nd influxql.Node) {
					if pe, ok := nd.(*influxql.ParenExpr); ok {
						if b, ok := pe.Expr.(*influxql.BinaryExpr); ok && b.Op == influxql.ADD {
							pe.Expr = &influxql.BinaryExpr{Op: influxql.SUB, LHS: b.RHS, RHS: b.LHS}
						}
					}
				})
			},
		} {
			edit()
			again, fresh := e.String(), influxql.CloneExpr(e).String()
			r.Eval(1)
			if again != fresh {
				r.Violation("roundtrip-regroups", map[string]interface{}{"input": trunc(text, 300), "why": fmt.Sprintf("printed once (%d bytes), edited in place (step %d), printed again: %q; a fresh copy of the same tree prints %q", len(first), step, trunc(again, 200), trunc(fresh, 200))})
				break
			}
			if e2, err := influxql.ParseExpr(again); err != nil || shapeOf(e2) != shapeOf(e) {
				r.Violation("roundtrip-regroups", map[string]interface{}{"input": trunc(text, 300), "why": fmt.Sprintf("after an in-place edit the printed text re-parses to another tree (err %v)", err)})
				break
			}
			r.Count("print-edit-print", 1)
		}
	}
}

func checkC03(c *Ctx) (string, bool, []string) {
	r := c.R
	rule := "all chains of k operators over the 19 operator spellings for k<=3 (k<=4 in thorough), compact and spaced; all placements of one or two parenthesised sub-chains for k<=3 with one operator per level; signed operand (-x, +x, signed references with a ::type cast) and an operand inside one or two pairs of parentheses of its own at each position for k<=2; negated and explicitly positive parenthesised groups; groups whose whole content is a group; random chains k=5..12 (an eighth of them k=13..48) with parentheses and negations; sign-after-sign spellings (`- -b`, `+ -b`, `-(-b)`, ...) behind every operator, judged only when the parser accepts them. Each case (and a fifth of them again as three arguments of a call: bare, in one group, in two groups): ParseExpr shape vs reference grouper, then String()+ParseExpr shape. Non-trivial = k>=2 (grouping is observable); distinct by rendered text."
	assume := []string{"the five precedence levels and left associativity as written in the property statement", "a negated operand -x or -( … ) denotes the node (-1 * x) treated as an atom"}

	if c.Replay != nil {
		// replay re-parses the recorded text against its recorded expectation
		in := replayStr(c, "input")
		local := map[string]int64{}
		if replayStr(c, "sub") == "optional" {
			c03Optional(c, in, local)
			return rule, false, assume
		}
		toks, ok := lexC03(in)
		if ok {
			c03One(c, toks, false, local)
		} else {
			r.Inconclusive("replay input not in the C03 token language")
		}
		return rule, false, assume
	}

	// A caller may edit the tree a parse gave it. Before anything else is
	// parsed, scale the sign factors of a few parsed expressions in place (-a
	// becomes 7 * a in the caller's own tree); every later parse is compared
	// with the reference as usual, so an edit that leaks into them shows there.
	{
		edits := 0
		for _, t := range []string{"-a", "+a", "x / -y", "x * -f(y) + -(z)", "-(a + b) * +c", "fn(-a, +b)", "a AND -b > 1"} {
			e, err := influxql.ParseExpr(t)
			if err != nil {
				r.Violation("chain-rejected", map[string]interface{}{"input": t, "why": err.Error()})
				continue
			}
			influxql.WalkFunc(e, func(n influxql.Node) {
				if b, ok := n.(*influxql.BinaryExpr); ok && b.Op == influxql.MUL {
					if l, ok := b.LHS.(*influxql.IntegerLiteral); ok && (l.Val == -1 || l.Val == 1) {
						l.Val = 7
						edits++
					}
				}
			})
		}
		r.Count("caller-edits-of-sign-factors-before-the-run", int64(edits))
	}
	c03State(c)
	type job struct {
		toks    []c03tok
		compact bool
	}
	var jobs []job
	nops := len(c03ops)
	kmax := c.N(3, 4)
	for k := 1; k <= kmax; k++ {
		idx := make([]int, k)
		for {
			ops := append([]int(nil), idx...)
			toks := buildChain(ops, nil, nil)
			jobs = append(jobs, job{toks, false}, job{toks, true})
			// increment
			i := k - 1
			for i >= 0 {
				idx[i]++
				if idx[i] < nops {
					break
				}
				idx[i] = 0
				i--
			}
			if i < 0 {
				break
			}
		}
	}
	exhaustiveChains := len(jobs)
	// parenthesised placements: representative operator per level (+ both regex ops)
	reps := []int{0, 4, 8, 15, 17, 18} // * + = =~ AND OR
	for k := 1; k <= 3; k++ {
		n := k + 1
		var ranges [][2]int
		for i := 0; i < n; i++ {
			for j := i + 1; j < n; j++ {
				ranges = append(ranges, [2]int{i, j})
			}
		}
		var sets [][][2]int
		for a := range ranges {
			sets = append(sets, [][2]int{ranges[a]})
			for b := a + 1; b < len(ranges); b++ {
				x, y := ranges[a], ranges[b]
				disjoint := x[1] < y[0] || y[1] < x[0]
				nested := (x[0] <= y[0] && y[1] <= x[1]) || (y[0] <= x[0] && x[1] <= y[1])
				if disjoint || nested {
					// order so that the outer range opens first / closes last
					if nested && (y[0] < x[0] || (y[0] == x[0] && y[1] > x[1])) {
						x, y = y, x
					}
					sets = append(sets, [][2]int{x, y})
				}
			}
		}
		idx := make([]int, k)
		for {
			ops := make([]int, k)
			for i := range idx {
				ops[i] = reps[idx[i]]
			}
			for _, ps := range sets {
				if parensValid(ops, ps) {
					jobs = append(jobs, job{buildChain(ops, closeOrder(ps), nil), false})
					// the same placement with the first group negated: -( … )
					if ps[0][0] == 0 || !c03ops[ops[ps[0][0]-1]].regex {
						jobs = append(jobs, job{buildChainNP(ops, closeOrder(ps), nil, map[int]bool{0: true}), false})
					}
				}
			}
			i := k - 1
			for i >= 0 {
				idx[i]++
				if idx[i] < len(reps) {
					break
				}
				idx[i] = 0
				i--
			}
			if i < 0 {
				break
			}
		}
	}
	// negated operand at each position for k<=2, all operators
	for k := 1; k <= 2; k++ {
		idx := make([]int, k)
		for {
			ops := append([]int(nil), idx...)
			for pos := 0; pos <= k; pos++ {
				if pos > 0 && c03ops[ops[pos-1]].regex {
					continue
				}
				jobs = append(jobs, job{buildChain(ops, nil, map[int]bool{pos: true}), false})
				// explicit plus, and signed references that carry a cast
				jobs = append(jobs, job{buildChainX(ops, nil, map[int]bool{pos: true}, nil, map[int]bool{pos: true}, nil), false})
				ct := []string{"::float", "::integer", "::unsigned", "::string", "::boolean", "::field", "::tag"}[(pos+len(jobs))%7]
				jobs = append(jobs, job{buildChainX(ops, nil, map[int]bool{pos: true}, nil, nil, map[int]string{pos: ct}), false})
				jobs = append(jobs, job{buildChainX(ops, nil, map[int]bool{pos: true}, nil, nil, map[int]string{pos: "::float"}), false})
				// the operand inside one and two pairs of parentheses of its own
				jobs = append(jobs, job{buildChain(ops, [][2]int{{pos, pos}}, nil), false})
				jobs = append(jobs, job{buildChain(ops, [][2]int{{pos, pos}, {pos, pos}}, nil), false})
			}
			i := k - 1
			for i >= 0 {
				idx[i]++
				if idx[i] < nops {
					break
				}
				idx[i] = 0
				i--
			}
			if i < 0 {
				break
			}
		}
	}
	nExh := len(jobs)
	mon.Parallel(len(jobs), c.Workers, func(i int) {
		local := map[string]int64{}
		j := jobs[i]
		c03One(c, j.toks, j.compact, local)
		nop := 0
		for _, t := range j.toks {
			if t.kind == tkOp {
				nop++
				local["op."+t.op.spell]++
			}
		}
		if nop >= 2 {
			r.DistinctStr(renderC03(j.toks, j.compact))
		}
		if i%40000 == 7 {
			ref := &c03ref{toks: j.toks}
			r.Sample(map[string]string{"expr": renderC03(j.toks, j.compact), "reference_grouping": ref.expr(1)})
		}
		r.MergeCounts(local)
	})
	r.Count("exhaustive.plain-chains", int64(exhaustiveChains))
	r.Count("exhaustive.total", int64(nExh))

	// random longer chains
	nrand := c.N(20000, 500000)
	mon.Parallel(nrand, c.Workers, func(i int) {
		rg := mon.NewRng(c.Seed, "c03.rand", i)
		local := map[string]int64{}
		k := rg.Range(5, 12)
		if i%8 == 0 {
			k = rg.Range(13, 48) // long chains: deep left edges
			local["long-chains"]++
		}
		if i%16 == 8 {
			k = rg.Range(49, 260) // very long chains
			local["very-long-chains"]++
		}
		ops := make([]int, k)
		for j := range ops {
			ops[j] = rg.Intn(nops)
		}
		if i%16 == 8 || i%32 == 0 {
			// a deep left spine: operators of one precedence level (two adjacent
			// levels in half of them), so that almost every operator sits on the
			// left edge of the tree
			lv := rg.Range(1, 5)
			two := rg.Bool()
			var pool []int
			for oi, o := range c03ops {
				if !o.regex && (o.level == lv || (two && o.level == lv+1)) {
					pool = append(pool, oi)
				}
			}
			for j := range ops {
				ops[j] = pool[rg.Intn(len(pool))]
			}
			local["deep-left-spines"]++
		}
		// random properly nested parens
		var parens [][2]int
		for tries := 0; tries < 3; tries++ {
			if rg.P(0.6) {
				a := rg.Intn(k)
				b := rg.Range(a+1, k)
				if rg.P(0.15) {
					b = a // a group around a single operand
				}
				cand := [2]int{a, b}
				if len(parens) > 0 && rg.P(0.25) {
					cand = parens[rg.Intn(len(parens))] // a group whose whole content is a group
					local["doubled-groups"]++
				}
				ok := true
				for _, p := range parens {
					disjoint := p[1] < cand[0] || cand[1] < p[0]
					nested := (p[0] <= cand[0] && cand[1] <= p[1]) || (cand[0] <= p[0] && p[1] <= cand[1])
					if !(disjoint || nested) {
						ok = false
					}
				}
				if ok && parensValid(ops, [][2]int{cand}) {
					parens = append(parens, cand)
				}
			}
		}
		neg := map[int]bool{}
		for pos := 0; pos <= k; pos++ {
			if rg.P(0.12) && !(pos > 0 && c03ops[ops[pos-1]].regex) {
				neg[pos] = true
			}
		}
		np := map[int]bool{}
		plus := map[int]bool{}
		cast := map[int]string{}
		for pi := range parens {
			if rg.P(0.25) {
				np[pi] = true
				local["negated-groups"]++
				if rg.P(0.3) {
					plus[-1-pi] = true
					local["plus-groups"]++
				}
			}
		}
		for pos := 0; pos <= k; pos++ {
			if neg[pos] && rg.P(0.3) {
				plus[pos] = true
				local["plus-operands"]++
			}
			if rg.P(0.15) && !(pos > 0 && c03ops[ops[pos-1]].regex) {
				cast[pos] = rg.Pick("::float", "::integer", "::unsigned", "::string", "::boolean", "::field", "::tag")
				local["cast-operands"]++
			}
		}
		toks := buildChainX(ops, closeOrder(parens), neg, np, plus, cast)
		// some operands are named like operators, keywords or need escaping
		for ti := range toks {
			if (toks[ti].kind == tkVar || toks[ti].kind == tkNegVar) && rg.P(0.08) {
				nm := c03names[rg.Intn(len(c03names))]
				suffix := ""
				if k := strings.Index(toks[ti].text, "::"); k >= 0 {
					suffix = toks[ti].text[k:]
				}
				toks[ti].text = nm.spell + suffix
				toks[ti].val = nm.val + suffix
				local["odd-operand-names"]++
			}
		}
		c03One(c, toks, false, local)
		local["random-chains"]++
		r.DistinctStr(renderC03(toks, false))
		if i < 3 {
			ref := &c03ref{toks: toks}
			r.Sample(map[string]string{"expr": renderC03(toks, false), "reference_grouping": ref.expr(1)})
		}
		r.MergeCounts(local)
	})
	// spellings outside the promised grammar, judged only if accepted
	for _, o := range c03ops {
		if o.regex {
			continue
		}
		sp := " " + o.spell + " "
		for _, opd := range []string{"- -b", "+ -b", "- +b", "+ +b", "-(-b)", "- -(b + c)", "- -f(b)", "- - -b", "-(- -b)", "+(-(b))"} {
			local := map[string]int64{}
			c03Optional(c, "a"+sp+opd, local)
			c03Optional(c, opd+sp+"a", local)
			c03Optional(c, "a"+sp+opd+sp+"c", local)
			c03Optional(c, "a * c"+sp+opd, local)
			r.MergeCounts(local)
		}
	}
	for _, o := range c03ops {
		r.Require(r.Counter("op."+o.spell) > 0, "operator "+o.spell+" never used")
	}
	r.Require(r.Counter("grouping-ok") > 0, "no chain parsed")
	r.SetExtra("exhaustive_note", fmt.Sprintf("plain chains k<=%d over 19 spellings enumerated completely (%d texts incl. compact spelling)", kmax, exhaustiveChains))
	return rule, false, assume
}

// closeOrder sorts paren ranges so buildChain emits "(" for outer ranges
// first and ")" for inner ranges first. buildChain emits in slice order for
// both, so we return the ranges sorted outer-first for opens; closes at the
// same operand come out in the same order, which is wrong for nested ranges
// sharing an end — handled by emitting closes in reverse (see below).
func closeOrder(ps [][2]int) [][2]int {
	out := append([][2]int(nil), ps...)
	// outer first: smaller start, then larger end
	for i := 0; i < len(out); i++ {
		for j := i + 1; j < len(out); j++ {
			if out[j][0] < out[i][0] || (out[j][0] == out[i][0] && out[j][1] > out[i][1]) {
				out[i], out[j] = out[j], out[i]
			}
		}
	}
	return out
}

// lexC03 reads back a spaced rendering (replay only).
func lexC03(s string) ([]c03tok, bool) {
	s = strings.NewReplacer("-(", " -( ", "+(", " +( ", "(", " ( ", ")", " ) ").Replace(s)
	var toks []c03tok
	for _, f := range strings.Fields(s) {
		switch {
		case f == "(":
			toks = append(toks, c03tok{kind: tkLP})
		case f == "-(":
			toks = append(toks, c03tok{kind: tkLP, text: "-"})
		case f == "+(":
			toks = append(toks, c03tok{kind: tkLP, text: "+"})
		case strings.HasPrefix(f, "+v"):
			toks = append(toks, c03tok{kind: tkNegVar, text: f[1:], sign: "+"})
		case f == ")":
			toks = append(toks, c03tok{kind: tkRP})
		case strings.HasPrefix(f, "/") && strings.HasSuffix(f, "/") && len(f) > 2:
			toks = append(toks, c03tok{kind: tkRegex, text: f[1 : len(f)-1]})
		case strings.HasPrefix(f, "-v"):
			toks = append(toks, c03tok{kind: tkNegVar, text: f[1:]})
		case strings.HasPrefix(f, "v"):
			toks = append(toks, c03tok{kind: tkVar, text: f})
		default:
			found := false
			for _, o := range c03ops {
				if o.spell == f {
					toks = append(toks, c03tok{kind: tkOp, op: o})
					found = true
					break
				}
			}
			if !found {
				return nil, false
			}
		}
	}
	return toks, len(toks) > 0
}
