package checks

import (
	"fmt"
	"math"
	"math/big"
	"reflect"
	"strconv"
	"strings"
	"time"

	"github.com/influxdata/influxql"
	"verifharness/mon"
)

// C08 — durations are parsed exactly or rejected, and formatting is invertible.
//
// Oracle: math/big arithmetic over the component list the harness generated;
// the expected value never goes through int64.

type durUnit struct {
	spell string
	mult  int64
}

var durUnits = []durUnit{
	{"ns", 1}, {"u", 1e3}, {"µ", 1e3}, {"ms", 1e6}, {"s", 1e9},
	{"m", 60e9}, {"h", 3600e9}, {"d", 86400e9}, {"w", 604800e9},
}

type durComp struct {
	digits string // as spelled (may carry leading zeros)
	unit   durUnit
}

func compsText(neg bool, comps []durComp) string {
	var b strings.Builder
	if neg {
		b.WriteByte('-')
	}
	for _, c := range comps {
		b.WriteString(c.digits)
		b.WriteString(c.unit.spell)
	}
	return b.String()
}

var (
	bigMaxI64 = big.NewInt(math.MaxInt64)
	bigMinI64 = big.NewInt(math.MinInt64)
)

// exactSum returns the exact signed sum in nanoseconds.
func exactSum(neg bool, comps []durComp) *big.Int {
	sum := new(big.Int)
	for _, c := range comps {
		n, _ := new(big.Int).SetString(c.digits, 10)
		n.Mul(n, big.NewInt(c.unit.mult))
		sum.Add(sum, n)
	}
	if neg {
		sum.Neg(sum)
	}
	return sum
}

func fitsI64(x *big.Int) bool { return x.Cmp(bigMinI64) >= 0 && x.Cmp(bigMaxI64) <= 0 }

// refFormat is the harness's own "largest dividing unit" formatter.
func refFormat(d int64) string {
	if d == 0 {
		return "0s"
	}
	for _, u := range []durUnit{{"w", 604800e9}, {"d", 86400e9}, {"h", 3600e9}, {"m", 60e9}, {"s", 1e9}, {"ms", 1e6}, {"u", 1e3}} {
		if d%u.mult == 0 {
			return strconv.FormatInt(d/u.mult, 10) + u.spell
		}
	}
	return strconv.FormatInt(d, 10) + "ns"
}

type durSlot struct {
	name    string
	text    func(d string) string
	extract func(st influxql.Statement) (time.Duration, bool)
	nonzero bool // slot rejects/ignores a zero duration for reasons outside C08
}

func cqSrc(st influxql.Statement) *influxql.CreateContinuousQueryStatement {
	s, _ := st.(*influxql.CreateContinuousQueryStatement)
	return s
}

func firstDurLit(e influxql.Expr) (time.Duration, bool) {
	var d time.Duration
	found := false
	influxql.WalkFunc(e, func(n influxql.Node) {
		if l, ok := n.(*influxql.DurationLiteral); ok && !found {
			d, found = l.Val, true
		}
	})
	return d, found
}

var durSlots = []durSlot{
	{"create-rp-duration", func(d string) string { return "CREATE RETENTION POLICY rp ON db DURATION " + d + " REPLICATION 1" },
		func(st influxql.Statement) (time.Duration, bool) {
			s, ok := st.(*influxql.CreateRetentionPolicyStatement)
			if !ok {
				return 0, false
			}
			return s.Duration, true
		}, false},
	{"create-rp-shard", func(d string) string {
		return "CREATE RETENTION POLICY rp ON db DURATION 1h REPLICATION 1 SHARD DURATION " + d
	}, func(st influxql.Statement) (time.Duration, bool) {
		s, ok := st.(*influxql.CreateRetentionPolicyStatement)
		if !ok {
			return 0, false
		}
		return s.ShardGroupDuration, true
	}, false},
	{"create-rp-future", func(d string) string {
		return "CREATE RETENTION POLICY rp ON db DURATION 1h REPLICATION 1 FUTURE LIMIT " + d
	}, func(st influxql.Statement) (time.Duration, bool) {
		s, ok := st.(*influxql.CreateRetentionPolicyStatement)
		if !ok {
			return 0, false
		}
		return s.FutureWriteLimit, true
	}, false},
	{"create-rp-past", func(d string) string {
		return "CREATE RETENTION POLICY rp ON db DURATION 1h REPLICATION 1 PAST LIMIT " + d
	}, func(st influxql.Statement) (time.Duration, bool) {
		s, ok := st.(*influxql.CreateRetentionPolicyStatement)
		if !ok {
			return 0, false
		}
		return s.PastWriteLimit, true
	}, false},
	{"alter-rp-duration", func(d string) string { return "ALTER RETENTION POLICY rp ON db DURATION " + d },
		func(st influxql.Statement) (time.Duration, bool) {
			s, ok := st.(*influxql.AlterRetentionPolicyStatement)
			if !ok || s.Duration == nil {
				return 0, false
			}
			return *s.Duration, true
		}, false},
	{"alter-rp-shard", func(d string) string { return "ALTER RETENTION POLICY rp ON db SHARD DURATION " + d },
		func(st influxql.Statement) (time.Duration, bool) {
			s, ok := st.(*influxql.AlterRetentionPolicyStatement)
			if !ok || s.ShardGroupDuration == nil {
				return 0, false
			}
			return *s.ShardGroupDuration, true
		}, false},
	{"alter-rp-future", func(d string) string { return "ALTER RETENTION POLICY rp ON db FUTURE LIMIT " + d },
		func(st influxql.Statement) (time.Duration, bool) {
			s, ok := st.(*influxql.AlterRetentionPolicyStatement)
			if !ok || s.FutureWriteLimit == nil {
				return 0, false
			}
			return *s.FutureWriteLimit, true
		}, false},
	{"alter-rp-past", func(d string) string { return "ALTER RETENTION POLICY rp ON db PAST LIMIT " + d },
		func(st influxql.Statement) (time.Duration, bool) {
			s, ok := st.(*influxql.AlterRetentionPolicyStatement)
			if !ok || s.PastWriteLimit == nil {
				return 0, false
			}
			return *s.PastWriteLimit, true
		}, false},
	{"create-db-duration", func(d string) string { return "CREATE DATABASE db WITH DURATION " + d },
		func(st influxql.Statement) (time.Duration, bool) {
			s, ok := st.(*influxql.CreateDatabaseStatement)
			if !ok || s.RetentionPolicyDuration == nil {
				return 0, false
			}
			return *s.RetentionPolicyDuration, true
		}, false},
	{"create-db-shard", func(d string) string { return "CREATE DATABASE db WITH SHARD DURATION " + d },
		func(st influxql.Statement) (time.Duration, bool) {
			s, ok := st.(*influxql.CreateDatabaseStatement)
			if !ok {
				return 0, false
			}
			return s.RetentionPolicyShardGroupDuration, true
		}, false},
	{"create-db-future", func(d string) string { return "CREATE DATABASE db WITH FUTURE LIMIT " + d },
		func(st influxql.Statement) (time.Duration, bool) {
			s, ok := st.(*influxql.CreateDatabaseStatement)
			if !ok || s.FutureWriteLimit == nil {
				return 0, false
			}
			return *s.FutureWriteLimit, true
		}, false},
	{"create-db-past", func(d string) string { return "CREATE DATABASE db WITH PAST LIMIT " + d },
		func(st influxql.Statement) (time.Duration, bool) {
			s, ok := st.(*influxql.CreateDatabaseStatement)
			if !ok || s.PastWriteLimit == nil {
				return 0, false
			}
			return *s.PastWriteLimit, true
		}, false},
	{"cq-resample-every", func(d string) string {
		return "CREATE CONTINUOUS QUERY cq ON db RESAMPLE EVERY " + d + " BEGIN SELECT v INTO t FROM m END"
	}, func(st influxql.Statement) (time.Duration, bool) {
		s := cqSrc(st)
		if s == nil {
			return 0, false
		}
		return s.ResampleEvery, true
	}, true},
	{"cq-resample-for", func(d string) string {
		return "CREATE CONTINUOUS QUERY cq ON db RESAMPLE FOR " + d + " BEGIN SELECT v INTO t FROM m END"
	}, func(st influxql.Statement) (time.Duration, bool) {
		s := cqSrc(st)
		if s == nil {
			return 0, false
		}
		return s.ResampleFor, true
	}, true},
	{"cq-resample-every-equals-interval", func(d string) string {
		return "CREATE CONTINUOUS QUERY cq ON db RESAMPLE EVERY " + d + " FOR 9223372036854775807ns BEGIN SELECT mean(v) INTO t FROM m GROUP BY time(" + d + ") END"
	}, func(st influxql.Statement) (time.Duration, bool) {
		s := cqSrc(st)
		if s == nil {
			return 0, false
		}
		iv, err := s.Source.GroupByInterval()
		if err != nil || iv != s.ResampleEvery {
			return 0, false
		}
		return s.ResampleEvery, true
	}, true},
	{"cq-resample-every-then-for", func(d string) string {
		return "CREATE CONTINUOUS QUERY cq ON db RESAMPLE EVERY " + d + " FOR 9223372036854775807ns BEGIN SELECT v INTO t FROM m END"
	}, func(st influxql.Statement) (time.Duration, bool) {
		s := cqSrc(st)
		if s == nil || s.ResampleFor != math.MaxInt64 {
			return 0, false
		}
		return s.ResampleEvery, true
	}, true},
	{"cq-resample-for-after-every", func(d string) string {
		return "CREATE CONTINUOUS QUERY cq ON db RESAMPLE EVERY 1ns FOR " + d + " BEGIN SELECT v INTO t FROM m END"
	}, func(st influxql.Statement) (time.Duration, bool) {
		s := cqSrc(st)
		if s == nil || s.ResampleEvery != 1 {
			return 0, false
		}
		return s.ResampleFor, true
	}, true},
	{"create-rp-all-four", func(d string) string {
		return "CREATE RETENTION POLICY rp ON db DURATION " + d + " REPLICATION 1 SHARD DURATION " + d + " FUTURE LIMIT " + d + " PAST LIMIT " + d
	}, func(st influxql.Statement) (time.Duration, bool) {
		s, ok := st.(*influxql.CreateRetentionPolicyStatement)
		if !ok || s.Duration != s.ShardGroupDuration || s.Duration != s.FutureWriteLimit || s.Duration != s.PastWriteLimit {
			return 0, false
		}
		return s.Duration, true
	}, false},
	{"group-by-time-plus-offset", func(d string) string { return "SELECT mean(v) FROM m GROUP BY time(7w, +" + d + ")" },
		func(st influxql.Statement) (time.Duration, bool) {
			s, ok := st.(*influxql.SelectStatement)
			if !ok || len(s.Dimensions) != 1 {
				return 0, false
			}
			c, ok := s.Dimensions[0].Expr.(*influxql.Call)
			if !ok || len(c.Args) != 2 {
				return 0, false
			}
			l, ok := c.Args[1].(*influxql.DurationLiteral)
			if !ok {
				return 0, false
			}
			return l.Val, true
		}, false},
	{"where-now-plus-plus", func(d string) string { return "SELECT v FROM m WHERE time < now() + +" + d },
		func(st influxql.Statement) (time.Duration, bool) {
			s, ok := st.(*influxql.SelectStatement)
			if !ok {
				return 0, false
			}
			return firstDurLit(s.Condition)
		}, false},
	{"subquery-group-by-time", func(d string) string {
		return "SELECT max(a) FROM (SELECT mean(v) AS a FROM m GROUP BY time(" + d + ")) GROUP BY time(1000w)"
	}, func(st influxql.Statement) (time.Duration, bool) {
		s, ok := st.(*influxql.SelectStatement)
		if !ok || len(s.Sources) != 1 {
			return 0, false
		}
		sq, ok := s.Sources[0].(*influxql.SubQuery)
		if !ok || len(sq.Statement.Dimensions) != 1 {
			return 0, false
		}
		return firstDurLit(sq.Statement.Dimensions[0].Expr)
	}, false},
	{"same-spelling-signed-later", func(d string) string {
		return "SELECT mean(v) FROM m WHERE a > -" + d + " AND b < " + d + " GROUP BY time(" + d + ", -" + d + ")"
	}, func(st influxql.Statement) (time.Duration, bool) {
		// interval, offset and both operands are separate literals: +d, -d, -d, +d
		s, ok := st.(*influxql.SelectStatement)
		if !ok || len(s.Dimensions) != 1 {
			return 0, false
		}
		c, ok := s.Dimensions[0].Expr.(*influxql.Call)
		if !ok || len(c.Args) != 2 {
			return 0, false
		}
		iv, ok1 := c.Args[0].(*influxql.DurationLiteral)
		of, ok2 := c.Args[1].(*influxql.DurationLiteral)
		var conds []time.Duration
		influxql.WalkFunc(s.Condition, func(n influxql.Node) {
			if l, ok := n.(*influxql.DurationLiteral); ok {
				conds = append(conds, l.Val)
			}
		})
		if !ok1 || !ok2 || len(conds) != 2 || of.Val != -iv.Val || conds[0] != -iv.Val || conds[1] != iv.Val {
			return 0, false
		}
		return iv.Val, true
	}, false},
	{"group-by-time", func(d string) string { return "SELECT mean(v) FROM m GROUP BY time(" + d + ")" },
		func(st influxql.Statement) (time.Duration, bool) {
			s, ok := st.(*influxql.SelectStatement)
			if !ok || len(s.Dimensions) != 1 {
				return 0, false
			}
			return firstDurLit(s.Dimensions[0].Expr)
		}, false},
	{"group-by-time-offset", func(d string) string { return "SELECT mean(v) FROM m GROUP BY time(7w, " + d + ")" },
		func(st influxql.Statement) (time.Duration, bool) {
			s, ok := st.(*influxql.SelectStatement)
			if !ok || len(s.Dimensions) != 1 {
				return 0, false
			}
			c, ok := s.Dimensions[0].Expr.(*influxql.Call)
			if !ok || len(c.Args) != 2 {
				return 0, false
			}
			l, ok := c.Args[1].(*influxql.DurationLiteral)
			if !ok {
				return 0, false
			}
			return l.Val, true
		}, false},
	{"where-now-minus", func(d string) string { return "SELECT v FROM m WHERE time > now() - " + d },
		func(st influxql.Statement) (time.Duration, bool) {
			s, ok := st.(*influxql.SelectStatement)
			if !ok {
				return 0, false
			}
			return firstDurLit(s.Condition)
		}, false},
}

func init() { Registry["C08"] = checkC08 }

type c08case struct {
	neg   bool
	comps []durComp
}

func c08Parse(c *Ctx, cs c08case, local map[string]int64) {
	r := c.R
	text := compsText(cs.neg, cs.comps)
	want := exactSum(cs.neg, cs.comps)
	fits := fitsI64(want)
	var d time.Duration
	var err error
	if p, pv, st := mon.Try(func() { d, err = influxql.ParseDuration(text) }); p {
		r.Violation("panic-in-ParseDuration", map[string]interface{}{"sub": "parse", "input": text, "why": fmt.Sprint(pv), "stack": st})
		return
	}
	r.Eval(1)
	local["parse.calls"]++
	if len(cs.comps) > 1 {
		local["parse.multi-component"]++
	}
	for _, cp := range cs.comps {
		local["parse.unit."+cp.unit.spell]++
	}
	switch {
	case err == nil && fits && want.Int64() == int64(d):
		local["parse.exact"]++
	case err == nil && fits:
		r.Violation("wrong-value", map[string]interface{}{"sub": "parse", "input": text, "why": fmt.Sprintf("ParseDuration=%d, exact sum=%s", int64(d), want)})
	case err == nil && !fits:
		local["parse.out-of-range-accepted"]++
		if !r.Known("overflow-wraps", text) {
			r.Violation("overflow-accepted", map[string]interface{}{"sub": "parse", "input": text, "why": fmt.Sprintf("exact sum %s does not fit in int64 but ParseDuration returned %d with nil error", want, int64(d))})
		}
	case err != nil && fits:
		if want.Cmp(bigMinI64) == 0 {
			local["parse.minint64-rejected(documented)"]++
			break
		}
		r.Violation("in-range-rejected", map[string]interface{}{"sub": "parse", "input": text, "why": fmt.Sprintf("well-formed spelling with exact sum %s (fits) rejected: %v", want, err)})
	default:
		local["parse.out-of-range-rejected"]++
	}
}

func c08Slot(c *Ctx, slot durSlot, cs c08case, local map[string]int64) {
	r := c.R
	if cs.neg {
		return
	}
	want := exactSum(false, cs.comps)
	if slot.nonzero && want.Sign() == 0 {
		return
	}
	dtext := compsText(false, cs.comps)
	text := slot.text(dtext)
	st, err, pan, pv, stk := parseQuery1(text)
	r.Eval(1)
	local["slot."+slot.name]++
	if pan {
		r.Violation("panic-in-parse", map[string]interface{}{"sub": "slot", "slot": slot.name, "input": text, "why": fmt.Sprint(pv), "stack": stk})
		return
	}
	fits := fitsI64(want)
	if err != nil {
		if fits {
			r.Violation("in-range-literal-rejected", map[string]interface{}{"sub": "slot", "slot": slot.name, "input": text, "why": fmt.Sprintf("duration literal with exact sum %s rejected: %v", want, err)})
		} else {
			local["slot.out-of-range-rejected"]++
		}
		return
	}
	got, ok := slot.extract(st)
	if !ok {
		r.Violation("slot-missing", map[string]interface{}{"sub": "slot", "slot": slot.name, "input": text, "why": "statement parsed but the duration slot is not where the text put it"})
		return
	}
	if !fits {
		if !r.Known("overflow-wraps", text) {
			r.Violation("overflow-accepted-in-statement", map[string]interface{}{"sub": "slot", "slot": slot.name, "input": text, "why": fmt.Sprintf("exact sum %s does not fit but literal accepted as %d", want, int64(got))})
		}
		return
	}
	if want.Int64() != int64(got) {
		r.Violation("wrong-value-in-statement", map[string]interface{}{"sub": "slot", "slot": slot.name, "input": text, "why": fmt.Sprintf("slot holds %d, exact sum %s", int64(got), want)})
		return
	}
	local["slot.exact"]++
	// the statement printed and read back holds the same duration
	var printed string
	var st2 influxql.Statement
	var err2 error
	if p, pv, stk := mon.Try(func() { printed = st.String(); st2, err2 = influxql.ParseStatement(printed) }); p {
		r.Violation("panic-printing-statement", map[string]interface{}{"sub": "slot", "slot": slot.name, "input": text, "why": fmt.Sprint(pv), "stack": stk})
		return
	}
	if err2 != nil {
		r.Violation("printed-duration-not-readable", map[string]interface{}{"sub": "slot", "slot": slot.name, "input": text, "why": fmt.Sprintf("printed as %q, which is rejected: %v", printed, err2)})
		return
	}
	if got2, ok := slot.extract(st2); !ok || got2 != got {
		r.Violation("printed-duration-changes-value", map[string]interface{}{"sub": "slot", "slot": slot.name, "input": text, "why": fmt.Sprintf("printed as %q, which reads back as %d (was %d)", printed, int64(got2), int64(got))})
		return
	}
	local["slot.printed-and-read-back"]++
	// the caller owns what it was given: it writes another duration into every
	// duration the statement holds (directly and through pointers). Statements
	// parsed later must not see that.
	c08ScribbleDurations(reflect.ValueOf(st), 0)
	local["slot.caller-overwrote-the-durations"]++
}

var c08durType = reflect.TypeOf(time.Duration(0))

func c08ScribbleDurations(v reflect.Value, depth int) {
	if depth > 12 || !v.IsValid() {
		return
	}
	switch v.Kind() {
	case reflect.Ptr, reflect.Interface:
		if !v.IsNil() {
			c08ScribbleDurations(v.Elem(), depth+1)
		}
	case reflect.Struct:
		for i := 0; i < v.NumField(); i++ {
			if f := v.Field(i); f.CanSet() || f.Kind() == reflect.Ptr || f.Kind() == reflect.Interface || f.Kind() == reflect.Slice || f.Kind() == reflect.Struct {
				if v.Type().Field(i).PkgPath == "" {
					c08ScribbleDurations(f, depth+1)
				}
			}
		}
	case reflect.Slice:
		for i := 0; i < v.Len(); i++ {
			c08ScribbleDurations(v.Index(i), depth+1)
		}
	case reflect.Int64:
		if v.Type() == c08durType && v.CanSet() {
			v.SetInt(int64(12345 * time.Hour))
		}
	}
}

// c08Across: the same spelling in two statements of one query, signed in the
// later one; every literal holds its own value, and a literal that is printed,
// given another value and printed again shows the new value.
func c08Across(c *Ctx, cs c08case, local map[string]int64) {
	r := c.R
	want := exactSum(false, cs.comps)
	if cs.neg || !fitsI64(want) || want.Sign() == 0 {
		return
	}
	d := compsText(false, cs.comps)
	text := "SELECT mean(v) FROM m GROUP BY time(" + d + "); SELECT v FROM m WHERE time > now() - " + d + " AND x < -" + d + "; SELECT v FROM m WHERE y = +" + d
	var q *influxql.Query
	var err error
	if p, pv, stk := mon.Try(func() { q, err = influxql.ParseQuery(text) }); p {
		r.Violation("panic-in-parse", map[string]interface{}{"sub": "across", "input": text, "why": fmt.Sprint(pv), "stack": stk})
		return
	}
	r.Eval(1)
	if err != nil || len(q.Statements) != 3 {
		r.Violation("in-range-literal-rejected", map[string]interface{}{"sub": "across", "input": text, "why": fmt.Sprint(err)})
		return
	}
	var got []int64
	var lits []*influxql.DurationLiteral
	for _, st := range q.Statements {
		influxql.WalkFunc(st, func(n influxql.Node) {
			if l, ok := n.(*influxql.DurationLiteral); ok {
				got = append(got, int64(l.Val))
				lits = append(lits, l)
			}
		})
	}
	w := want.Int64()
	if fmt.Sprint(got) != fmt.Sprint([]int64{w, w, -w, w}) {
		r.Violation("wrong-value-in-statement", map[string]interface{}{"sub": "across", "input": text, "why": fmt.Sprintf("the four literals hold %v, the text denotes %v", got, []int64{w, w, -w, w})})
		return
	}
	// print, change the value, print again
	l := lits[0]
	first := l.String()
	for _, nv := range []int64{w / 2, 0, -w, 90 * int64(time.Minute), w} {
		l.Val = time.Duration(nv)
		fresh := (&influxql.DurationLiteral{Val: time.Duration(nv)}).String()
		if now := l.String(); now != fresh {
			r.Violation("printed-duration-changes-value", map[string]interface{}{"sub": "across", "input": text, "why": fmt.Sprintf("a literal printed as %q, then given the value %dns, prints as %q; a new literal with that value prints as %q", first, nv, now, fresh)})
			return
		}
	}
	if printed := q.Statements[0].String(); !strings.Contains(printed, l.String()) {
		r.Violation("printed-duration-changes-value", map[string]interface{}{"sub": "across", "input": text, "why": fmt.Sprintf("statement prints as %q after its interval literal was set to %s", printed, l.String())})
		return
	}
	local["across.ok"]++
}

// c08OneParser: one Parser reads the same spelling several times in a row -
// three bare durations through Parser.ParseDuration, then the spelling as the
// retention duration of two statements, going on after an error. Every
// reading gives what the spelling gives alone: the exact sum or an error.
func c08OneParser(c *Ctx, cs c08case, local map[string]int64) {
	r := c.R
	if cs.neg {
		return
	}
	d := compsText(false, cs.comps)
	want := exactSum(false, cs.comps)
	fits := fitsI64(want)
	text := d + " " + d + "\n" + d + " ; ALTER RETENTION POLICY rp ON db DURATION " + d + " ; ALTER RETENTION POLICY rp ON db DURATION " + d
	type res struct {
		v   int64
		err error
	}
	var got []res
	if p, pv, stk := mon.Try(func() {
		ps := influxql.NewParser(strings.NewReader(text))
		for k := 0; k < 3; k++ {
			v, err := ps.ParseDuration()
			got = append(got, res{int64(v), err})
		}
		for k := 0; k < 2; k++ {
			if tok, _, _ := ps.ScanIgnoreWhitespace(); tok != influxql.SEMICOLON {
				return
			}
			st, err := ps.ParseStatement()
			var v int64
			if a, ok := st.(*influxql.AlterRetentionPolicyStatement); ok && err == nil && a.Duration != nil {
				v = int64(*a.Duration)
			}
			got = append(got, res{v, err})
		}
	}); p {
		r.Violation("panic-in-parse", map[string]interface{}{"sub": "oneparser", "input": text, "why": fmt.Sprint(pv), "stack": stk})
		return
	}
	r.Eval(1)
	for k, g := range got {
		where := fmt.Sprintf("reading %d of 5 by one parser", k+1)
		switch {
		case fits && k >= 3 && g.err != nil && want.Sign() != 0 && want.Int64() < int64(time.Hour):
			// the statement has a rule of its own (retention of at least 1h)
		case fits && g.err != nil:
			r.Violation("in-range-rejected", map[string]interface{}{"sub": "oneparser", "input": text, "why": fmt.Sprintf("%s: %q denotes %s but is rejected: %v", where, d, want, g.err)})
			return
		case fits && g.v != want.Int64():
			r.Violation("wrong-value", map[string]interface{}{"sub": "oneparser", "input": text, "why": fmt.Sprintf("%s: %q denotes %s, got %d", where, d, want, g.v)})
			return
		case !fits && g.err == nil:
			r.Violation("overflow-accepted", map[string]interface{}{"sub": "oneparser", "input": text, "why": fmt.Sprintf("%s: the exact sum %s of %q does not fit in int64 but the reading succeeds with %d", where, want, d, g.v)})
			return
		}
	}
	if len(got) == 5 {
		local["oneparser.five-readings"]++
	} else {
		local["oneparser.partial"]++
	}
}

// c08Signed: a duration literal behind an explicit sign in an expression.
func c08Signed(c *Ctx, cs c08case, local map[string]int64) {
	r := c.R
	if cs.neg {
		return
	}
	want := exactSum(false, cs.comps)
	if !fitsI64(want) {
		return
	}
	dtext := compsText(false, cs.comps)
	for _, sign := range []string{"+", "-", "+ ", "- "} {
		text := sign + dtext
		var e influxql.Expr
		var err error
		if p, pv, stk := mon.Try(func() { e, err = influxql.ParseExpr(text) }); p {
			r.Violation("panic-in-parse", map[string]interface{}{"sub": "signed", "input": text, "why": fmt.Sprint(pv), "stack": stk})
			return
		}
		r.Eval(1)
		if err != nil {
			r.Violation("in-range-literal-rejected", map[string]interface{}{"sub": "signed", "input": text, "why": fmt.Sprintf("signed duration literal with exact magnitude %s rejected: %v", want, err)})
			return
		}
		l, ok := e.(*influxql.DurationLiteral)
		w := want.Int64()
		if sign[0] == '-' {
			w = -w
		}
		if !ok || int64(l.Val) != w {
			r.Violation("wrong-value", map[string]interface{}{"sub": "signed", "input": text, "why": fmt.Sprintf("ParseExpr gives %v, the text denotes the duration %d", e, w)})
			return
		}
		local["signed.exact"]++
	}
}

func c08Format(c *Ctx, d int64, local map[string]int64) {
	r := c.R
	var s string
	if p, pv, st := mon.Try(func() { s = influxql.FormatDuration(time.Duration(d)) }); p {
		r.Violation("panic-in-FormatDuration", map[string]interface{}{"sub": "format", "value": strconv.FormatInt(d, 10), "why": fmt.Sprint(pv), "stack": st})
		return
	}
	r.Eval(1)
	local["format.calls"]++
	if want := refFormat(d); s != want {
		r.Violation("not-largest-dividing-unit", map[string]interface{}{"sub": "format", "value": strconv.FormatInt(d, 10), "why": fmt.Sprintf("FormatDuration(%d)=%q, largest dividing unit gives %q", d, s, want)})
		return
	}
	if d == math.MinInt64 {
		local["format.minint64(excluded from round trip)"]++
		return
	}
	var back time.Duration
	var err error
	if p, pv, st := mon.Try(func() { back, err = influxql.ParseDuration(s) }); p {
		r.Violation("panic-in-ParseDuration", map[string]interface{}{"sub": "format", "value": strconv.FormatInt(d, 10), "why": fmt.Sprint(pv), "stack": st})
		return
	}
	if err != nil || int64(back) != d {
		r.Violation("format-parse-roundtrip", map[string]interface{}{"sub": "format", "value": strconv.FormatInt(d, 10), "why": fmt.Sprintf("ParseDuration(FormatDuration(%d)=%q) = %d, %v", d, s, int64(back), err)})
		return
	}
	local["format.roundtrip-ok"]++
	// the formatted text as a literal inside a statement keeps its value too
	if d > 0 && d%7 == 0 {
		text := "SELECT mean(v) FROM m GROUP BY time(" + s + ")"
		st, err, pan, _, _ := parseQuery1(text)
		if pan || err != nil {
			r.Violation("formatted-literal-rejected", map[string]interface{}{"sub": "format", "value": strconv.FormatInt(d, 10), "input": text, "why": fmt.Sprint(err)})
			return
		}
		if got, ok := firstDurLit(st.(*influxql.SelectStatement).Dimensions[0].Expr); !ok || int64(got) != d {
			r.Violation("formatted-literal-value", map[string]interface{}{"sub": "format", "value": strconv.FormatInt(d, 10), "input": text, "why": fmt.Sprintf("literal holds %d", int64(got))})
		}
		local["format.literal-roundtrip-ok"]++
	}
}

// decompose writes target (>= 0) as a sum of components over a random subset
// of units, greedy from the largest chosen unit, remainder in ns.
func decompose(rg *mon.Rng, target *big.Int) []durComp {
	rest := new(big.Int).Set(target)
	var comps []durComp
	order := []int{8, 7, 6, 5, 4, 3, 1, 0}
	for _, ui := range order {
		u := durUnits[ui]
		if ui != 0 && rg.P(0.45) {
			continue
		}
		if ui == 1 && rg.Bool() {
			u = durUnits[2] // µ spelling
		}
		q := new(big.Int)
		if ui == 0 {
			q.Set(rest)
		} else {
			// leave a random part for smaller units
			q.Div(rest, big.NewInt(u.mult))
			if q.Sign() > 0 && rg.P(0.3) {
				q.Sub(q, big.NewInt(int64(rg.Intn(3))))
				if q.Sign() < 0 {
					q.SetInt64(0)
				}
			}
		}
		if q.Sign() == 0 && ui != 0 {
			continue
		}
		if !q.IsInt64() {
			// a single component must itself be an int64 numeral for the
			// spelling to be well-formed in the sense of the component loop;
			// keep it anyway: the exact sum then cannot fit either.
		}
		rest.Sub(rest, new(big.Int).Mul(q, big.NewInt(u.mult)))
		digits := q.String()
		if rg.P(0.1) {
			digits = strings.Repeat("0", 1+rg.Intn(3)) + digits
		}
		comps = append(comps, durComp{digits, u})
	}
	if len(comps) == 0 {
		comps = append(comps, durComp{"0", durUnits[4]})
	}
	// shuffle component order sometimes: any order of units is a legal spelling
	if rg.P(0.3) {
		rg.Shuffle(len(comps), func(i, j int) { comps[i], comps[j] = comps[j], comps[i] })
	}
	return comps
}

func checkC08(c *Ctx) (string, bool, []string) {
	r := c.R
	rule := "boundary grid: for every unit spelling and k, n in floor(k*2^63/mult)+{-2..2} (both signs) through ParseDuration and, for non-negative spellings, through 25 statement slots (one of them writes the same spelling four times, twice behind a minus; the same spelling also recurs across the statements of one query, and a literal that was printed is given other values and printed again) (each accepted statement is also printed and read back: same duration), and behind an explicit + or - sign through ParseExpr; multi-component decompositions of targets near k*2^63; random spellings; arbitrary short texts over digits, units, truncated multi-byte units, signs and raw bytes (never a panic; a value only for the sum the text denotes); FormatDuration on boundary and random int64 with round trip. Non-trivial = exact sum differs from 0 and case text distinct."
	assume := []string{"math/big arithmetic is the reference for the exact sum", "well-formed spelling = optional '-' then (digits unit)+ with units ns,u,µ,ms,s,m,h,d,w"}

	if c.Replay != nil {
		local := map[string]int64{}
		switch replayStr(c, "sub") {
		case "parse":
			in := replayStr(c, "input")
			cs, ok := parseCompsText(in)
			if ok {
				c08Parse(c, cs, local)
			}
		case "slot":
			// input is the statement text; re-derive the duration from the slot
			for _, s := range durSlots {
				if s.name == replayStr(c, "slot") {
					pre := s.text("\x00")
					i := strings.Index(pre, "\x00")
					in := replayStr(c, "input")
					if len(in) >= len(pre)-1 {
						d := in[i : len(in)-(len(pre)-1-i)]
						if cs, ok := parseCompsText(d); ok {
							c08Slot(c, s, cs, local)
						}
					}
				}
			}
		case "hostile":
			var b []byte
			fmt.Sscanf(replayStr(c, "hex"), "%x", &b)
			influxql.ParseDuration(string(b))
		case "across":
			in := replayStr(c, "input")
			if a, b := strings.Index(in, "time("), strings.Index(in, ")"); a >= 0 && b > a {
				if cs, ok := parseCompsText(in[a+5 : b]); ok {
					c08Across(c, cs, local)
				}
			}
		case "oneparser":
			in := replayStr(c, "input")
			if k := strings.Index(in, " "); k > 0 {
				if cs, ok := parseCompsText(in[:k]); ok {
					c08OneParser(c, cs, local)
				}
			}
		case "signed":
			in := strings.TrimSpace(strings.TrimLeft(replayStr(c, "input"), "+-"))
			if cs, ok := parseCompsText(in); ok {
				c08Signed(c, cs, local)
			}
		case "format":
			v, _ := strconv.ParseInt(replayStr(c, "value"), 10, 64)
			c08Format(c, v, local)
		}
		return rule, false, assume
	}

	// ---- 1. exhaustive boundary grid -------------------------------------
	var grid []c08case
	two63 := new(big.Int).Lsh(big.NewInt(1), 63)
	kcap := int64(c.N(4096, 1<<17))
	for _, u := range durUnits {
		kmax := u.mult // n = k*2^63/mult <= MaxInt64  <=>  k <= mult (roughly)
		if kmax > kcap {
			kmax = kcap
		}
		for k := int64(1); k <= kmax; k++ {
			base := new(big.Int).Mul(two63, big.NewInt(k))
			base.Div(base, big.NewInt(u.mult))
			for dlt := int64(-2); dlt <= 2; dlt++ {
				n := new(big.Int).Add(base, big.NewInt(dlt))
				if n.Sign() < 0 || !n.IsInt64() {
					continue
				}
				for _, neg := range []bool{false, true} {
					grid = append(grid, c08case{neg, []durComp{{n.String(), u}}})
				}
			}
		}
		// small values and digit strings longer than 19
		for _, ds := range []string{"0", "1", "2", "10", "007", "99999999999999999999", "18446744073709551616", "9223372036854775807", "9223372036854775808", "9223372036854775809", "92233720368547758085", "92233720368547758079", "922337203685477580", "010", "0100", "030", "09", "00008"} {
			for _, neg := range []bool{false, true} {
				grid = append(grid, c08case{neg, []durComp{{ds, u}}})
			}
		}
	}
	// sums whose parts fit but whose total does not (2 and 3 components)
	maxs := []string{"9223372036854775807", "9223372036854775806", "4611686018427387904", "4611686018427387903", "3074457345618258603", "3074457345618258602", "6148914691236517205"}
	for _, a := range maxs {
		for _, b := range maxs {
			grid = append(grid, c08case{false, []durComp{{a, durUnits[0]}, {b, durUnits[0]}}})
			grid = append(grid, c08case{true, []durComp{{a, durUnits[0]}, {b, durUnits[0]}}})
			for _, d := range maxs {
				grid = append(grid, c08case{false, []durComp{{a, durUnits[0]}, {b, durUnits[0]}, {d, durUnits[0]}}})
			}
		}
	}
	// known-finding witnesses (always executed)
	grid = append(grid,
		c08case{false, []durComp{{"5124096", durUnits[6]}}},
		c08case{true, []durComp{{"5124096", durUnits[6]}}},
		c08case{false, []durComp{{"15251", durUnits[8]}}},
	)
	mon.Parallel(len(grid), c.Workers, func(i int) {
		local := map[string]int64{}
		cs := grid[i]
		c08Parse(c, cs, local)
		if exactSum(cs.neg, cs.comps).Sign() != 0 {
			r.DistinctStr("p|" + compsText(cs.neg, cs.comps))
		}
		if !cs.neg && (i%7 == 0 || i >= len(grid)-3) {
			slot := durSlots[(i/7)%len(durSlots)]
			if i >= len(grid)-3 {
				slot = durSlots[0]
			}
			c08Slot(c, slot, cs, local)
		}
		if i < 6 {
			r.Sample(map[string]interface{}{"ParseDuration": compsText(cs.neg, cs.comps), "exact_sum_ns": exactSum(cs.neg, cs.comps).String()})
		}
		r.MergeCounts(local)
	})
	r.Count("grid.cases", int64(len(grid)))

	// every slot sees every unit at the wrap-around boundary and in range
	var slotCases []c08case
	for _, u := range durUnits {
		base := new(big.Int).Div(two63, big.NewInt(u.mult))
		for dlt := int64(-1); dlt <= 1; dlt++ {
			slotCases = append(slotCases, c08case{false, []durComp{{new(big.Int).Add(base, big.NewInt(dlt)).String(), u}}})
		}
		slotCases = append(slotCases, c08case{false, []durComp{{"1", u}}}, c08case{false, []durComp{{"90", u}, {"1500", durUnits[3]}}})
	}
	slotCases = append(slotCases, c08case{false, []durComp{{"5124096", durUnits[6]}}}, c08case{false, []durComp{{"10248192", durUnits[6]}}})
	// zero, in three spellings, in every slot
	slotCases = append(slotCases, c08case{false, []durComp{{"0", durUnits[4]}}}, c08case{false, []durComp{{"0", durUnits[0]}}}, c08case{false, []durComp{{"00", durUnits[8]}, {"0", durUnits[3]}}})
	mon.Parallel(len(durSlots)*len(slotCases), c.Workers, func(i int) {
		local := map[string]int64{}
		c08Slot(c, durSlots[i/len(slotCases)], slotCases[i%len(slotCases)], local)
		if i < len(slotCases) {
			c08Signed(c, slotCases[i], local)
			c08Across(c, slotCases[i], local)
		}
		r.MergeCounts(local)
	})

	// ---- similar spellings one after the other -----------------------------
	// (long single- and two-component literals that share all but their last
	// unit or digit, with a multi-byte unit in the middle)
	{
		local := map[string]int64{}
		digits := "1234567890123456"
		units := []string{"ns", "u", "µ", "ms", "s", "m", "h", "d", "w"}
		for n := 1; n <= 15; n++ {
			for _, mid := range []string{"µ", "u", "ms"} {
				for _, last := range []string{"5", "6"} {
					for _, u := range units {
						if cs, ok := parseCompsText(digits[:n] + mid + last + u); ok {
							c08Parse(c, cs, local)
							local["similar-spellings"]++
						}
					}
				}
			}
		}
		r.MergeCounts(local)
	}

	// ---- 2. random spellings ----------------------------------------------
	nrand := c.N(200000, 5000000)
	mon.Parallel(nrand, c.Workers, func(i int) {
		rg := mon.NewRng(c.Seed, "c08.rand", i)
		local := map[string]int64{}
		var target *big.Int
		switch rg.Intn(4) {
		case 0: // near k * 2^63
			k := int64(rg.Range(1, 3))
			target = new(big.Int).Mul(two63, big.NewInt(k))
			target.Add(target, big.NewInt(int64(rg.Range(-3, 3))))
		case 1: // uniformly below 2^63
			target = new(big.Int).SetUint64(rg.Uint64() >> 1)
		case 2: // small
			target = big.NewInt(int64(rg.Intn(1000000)))
		default: // up to 2^65
			target = new(big.Int).SetUint64(rg.Uint64())
			target.Mul(target, big.NewInt(int64(rg.Range(1, 2))))
		}
		cs := c08case{neg: rg.P(0.3), comps: decompose(rg, target)}
		c08Parse(c, cs, local)
		if target.Sign() != 0 {
			r.DistinctStr("p|" + compsText(cs.neg, cs.comps))
		}
		if !cs.neg && rg.P(0.25) {
			c08Slot(c, durSlots[rg.Intn(len(durSlots))], cs, local)
		}
		if !cs.neg && rg.P(0.05) {
			c08Signed(c, cs, local)
			c08Across(c, cs, local)
		}
		if !cs.neg && rg.P(0.2) {
			c08OneParser(c, cs, local)
		}
		if i < 4 {
			r.Sample(map[string]interface{}{"ParseDuration": compsText(cs.neg, cs.comps), "exact_sum_ns": exactSum(cs.neg, cs.comps).String()})
		}
		r.MergeCounts(local)
	})

	// ---- 2b. arbitrary texts: a value or an error, never a panic; a value only
	// for the sum the text denotes -------------------------------------------
	nh := c.N(150000, 3000000)
	mon.Parallel(nh, c.Workers, func(i int) {
		rg := mon.NewRng(c.Seed, "c08.hostile", i)
		local := map[string]int64{}
		var sb strings.Builder
		for j, n := 0, rg.Intn(9); j < n; j++ {
			switch rg.Intn(9) {
			case 0, 1, 2:
				sb.WriteString(strconv.Itoa(rg.Intn(2000)))
			case 3, 4:
				sb.WriteString(rg.Pick("ns", "u", "µ", "ms", "s", "m", "h", "d", "w"))
			case 5:
				sb.WriteString(rg.Pick("\xc2", "\xb5", "\xc2\xb5", "\xe2\x82", "\xff", "\x00", "\xf0\x9f", "\xc2\xc2"))
			case 6:
				sb.WriteString(rg.Pick("-", "+", " ", ".", "e", "x", "H", "MS", "µs", "\u03bc", "\uff11"))
			case 7:
				sb.WriteByte(byte(rg.Intn(256)))
			default:
				sb.WriteString(rg.Pick("9223372036854775807", "18446744073709551616", "0", "00"))
			}
		}
		text := sb.String()
		var d time.Duration
		var err error
		if p, pv, st := mon.Try(func() { d, err = influxql.ParseDuration(text) }); p {
			r.Violation("panic-in-ParseDuration", map[string]interface{}{"sub": "hostile", "input": text, "hex": fmt.Sprintf("%x", text), "why": fmt.Sprint(pv), "stack": st})
			r.MergeCounts(local)
			return
		}
		r.Eval(1)
		local["hostile.calls"]++
		if err == nil {
			if cs, ok := parseCompsText(text); ok {
				if want := exactSum(cs.neg, cs.comps); !fitsI64(want) || want.Int64() != int64(d) {
					r.Violation("wrong-value", map[string]interface{}{"sub": "hostile", "input": text, "hex": fmt.Sprintf("%x", text), "why": fmt.Sprintf("ParseDuration=%d, exact sum=%s", int64(d), want)})
				} else {
					local["hostile.well-formed-exact"]++
				}
			} else {
				local["hostile.accepted-outside-the-stated-spelling(not judged)"]++
			}
		} else {
			local["hostile.rejected"]++
		}
		r.MergeCounts(local)
	})

	// ---- 3. FormatDuration -------------------------------------------------
	var fvals []int64
	fvals = append(fvals, 0, 1, -1, math.MaxInt64, math.MinInt64, math.MinInt64+1)
	for _, u := range durUnits {
		for _, k := range []int64{1, 2, 7, 24, 60, 1000, 1001} {
			for _, dlt := range []int64{-1, 0, 1} {
				v := u.mult*k + dlt
				fvals = append(fvals, v, -v)
			}
		}
		q := math.MaxInt64 / u.mult
		fvals = append(fvals, q*u.mult, -(q * u.mult), (q-1)*u.mult)
	}
	for k := int64(0); k < 64; k++ {
		fvals = append(fvals, math.MaxInt64-k, math.MinInt64+1+k)
	}
	mon.Parallel(len(fvals), c.Workers, func(i int) {
		local := map[string]int64{}
		c08Format(c, fvals[i], local)
		r.DistinctStr("f|" + strconv.FormatInt(fvals[i], 10))
		r.MergeCounts(local)
	})
	nf := c.N(1000000, 20000000)
	mon.Parallel(nf/1000, c.Workers, func(b int) {
		local := map[string]int64{}
		rg := mon.NewRng(c.Seed, "c08.fmt", b)
		for j := 0; j < 1000; j++ {
			var v int64
			switch rg.Intn(3) {
			case 0:
				v = int64(rg.Uint64())
			case 1: // multiples of a unit
				u := durUnits[rg.Intn(len(durUnits))]
				v = (int64(rg.Uint64()>>1) / u.mult) * u.mult
				if rg.Bool() {
					v = -v
				}
			default:
				v = int64(rg.Intn(100000)) - 50000
			}
			c08Format(c, v, local)
			if j < 8 {
				r.DistinctStr("f|" + strconv.FormatInt(v, 10))
			}
		}
		r.MergeCounts(local)
	})
	r.Sample(map[string]interface{}{"FormatDuration": "3600000000000", "expected": refFormat(3600000000000)})

	// coverage floors
	for _, u := range durUnits {
		r.Require(r.Counter("parse.unit."+u.spell) > 0, "unit "+u.spell+" never parsed")
	}
	for _, s := range durSlots {
		r.Require(r.Counter("slot."+s.name) > 0, "slot "+s.name+" never exercised")
	}
	r.Require(r.Counter("parse.exact") > 0 && r.Counter("format.roundtrip-ok") > 0, "no successful parse / round trip observed")
	r.Require(r.Counter("parse.out-of-range-rejected")+r.Counter("parse.out-of-range-accepted") > 0, "no out-of-range spelling observed")
	return rule, false, assume
}

// parseCompsText re-reads a spelling produced by compsText (replay only).
func parseCompsText(s string) (c08case, bool) {
	var cs c08case
	rs := []rune(s)
	i := 0
	if i < len(rs) && rs[i] == '-' {
		cs.neg = true
		i++
	}
	for i < len(rs) {
		j := i
		for j < len(rs) && rs[j] >= '0' && rs[j] <= '9' {
			j++
		}
		if j == i {
			return cs, false
		}
		k := j
		for k < len(rs) && !(rs[k] >= '0' && rs[k] <= '9') {
			k++
		}
		us := string(rs[j:k])
		ok := false
		for _, u := range durUnits {
			if u.spell == us {
				cs.comps = append(cs.comps, durComp{string(rs[i:j]), u})
				ok = true
			}
		}
		if !ok {
			return cs, false
		}
		i = k
	}
	return cs, len(cs.comps) > 0
}
