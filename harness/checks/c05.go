package checks

import (
	"errors"
	"fmt"
	"io"
	"strings"
	"testing/iotest"
	"unicode/utf8"

	"github.com/influxdata/influxql"
	"verifharness/gen"
	"verifharness/mon"
)

// C05 — the lexer partitions its input and reports exact positions.
//
// Oracle: the harness folds the text itself (CRLF / CR -> LF, invalid byte ->
// U+FFFD) and measures token extents with the hook counter
// (*Scanner).VerifConsumed, never with the positions under test.

func foldText(s string) []rune {
	var out []rune
	rs := []rune(s) // invalid bytes become U+FFFD one per byte
	for i := 0; i < len(rs); i++ {
		if rs[i] == '\r' {
			if i+1 < len(rs) && rs[i+1] == '\n' {
				i++
			}
			out = append(out, '\n')
			continue
		}
		out = append(out, rs[i])
	}
	return out
}

// posAt returns the zero-based (line, column) of offset off in folded text.
func posAt(f []rune, off int) influxql.Pos {
	line, col := 0, 0
	for i := 0; i < off && i < len(f); i++ {
		if f[i] == '\n' {
			line++
			col = 0
		} else {
			col++
		}
	}
	return influxql.Pos{Line: line, Char: col}
}

func isIdentRune(r rune) bool {
	return (r >= 'a' && r <= 'z') || (r >= 'A' && r <= 'Z') || (r >= '0' && r <= '9') || r == '_'
}

func unescapeQuoted(inner []rune) (string, bool) {
	var b strings.Builder
	for i := 0; i < len(inner); i++ {
		if inner[i] == '\\' {
			if i+1 >= len(inner) {
				return "", false
			}
			i++
			switch inner[i] {
			case 'n':
				b.WriteRune('\n')
			case '\\', '"', '\'':
				b.WriteRune(inner[i])
			default:
				return "", false
			}
			continue
		}
		b.WriteRune(inner[i])
	}
	return b.String(), true
}

var opSpell = map[influxql.Token][]string{
	influxql.ADD: {"+"}, influxql.SUB: {"-"}, influxql.MUL: {"*"}, influxql.DIV: {"/"}, influxql.MOD: {"%"},
	influxql.BITWISE_AND: {"&"}, influxql.BITWISE_OR: {"|"}, influxql.BITWISE_XOR: {"^"},
	influxql.EQ: {"="}, influxql.NEQ: {"!=", "<>"}, influxql.EQREGEX: {"=~"}, influxql.NEQREGEX: {"!~"},
	influxql.LT: {"<"}, influxql.LTE: {"<="}, influxql.GT: {">"}, influxql.GTE: {">="},
	influxql.LPAREN: {"("}, influxql.RPAREN: {")"}, influxql.COMMA: {","}, influxql.COLON: {":"},
	influxql.DOUBLECOLON: {"::"}, influxql.SEMICOLON: {";"}, influxql.DOT: {"."},
}

// contentOK checks that (tok, lit) is consistent with the covered runes and
// that the token could not have continued (maximal munch for word tokens).
func contentOK(tok influxql.Token, lit string, cov []rune, next rune, hasNext bool) (bool, string) {
	cs := string(cov)
	if len(cov) == 0 {
		return false, "token covers no rune"
	}
	if sp, ok := opSpell[tok]; ok {
		for _, s := range sp {
			if s == cs {
				return true, ""
			}
		}
		return false, fmt.Sprintf("operator token %s covers %q", tok, cs)
	}
	if (tok == influxql.BADSTRING || tok == influxql.BADESCAPE) && len(cov) >= 2 && cov[0] == '$' && cov[1] == '"' {
		// an unterminated or badly escaped quoted parameter name: "$" + the
		// error token of the quoted part
		if !strings.HasPrefix(lit, "$") {
			return false, fmt.Sprintf("%s of a quoted parameter name has literal %q without $", tok, lit)
		}
		cov, lit, cs = cov[1:], lit[1:], string(cov[1:])
	}
	switch tok {
	case influxql.WS:
		for _, r := range cov {
			if r != ' ' && r != '\t' && r != '\n' {
				return false, "WS covers non-whitespace"
			}
		}
		if lit != cs {
			return false, fmt.Sprintf("WS literal %q differs from covered %q", lit, cs)
		}
		if hasNext && (next == ' ' || next == '\t' || next == '\n') {
			return false, "WS stopped before more whitespace"
		}
		return true, ""
	case influxql.IDENT:
		if cov[0] == '"' {
			if len(cov) < 2 || cov[len(cov)-1] != '"' {
				return false, "quoted identifier extent does not end at a quote"
			}
			v, ok := unescapeQuoted(cov[1 : len(cov)-1])
			if !ok || v != lit {
				return false, fmt.Sprintf("quoted identifier %q has literal %q", cs, lit)
			}
			return true, ""
		}
		if lit != cs {
			return false, fmt.Sprintf("bare identifier literal %q differs from covered text %q", lit, cs)
		}
		for _, r := range cov {
			if !isIdentRune(r) {
				return false, "bare identifier covers a non-identifier character"
			}
		}
		if hasNext && isIdentRune(next) {
			return false, "identifier stopped before more identifier characters"
		}
		return true, ""
	case influxql.STRING:
		if len(cov) < 2 || cov[0] != '\'' || cov[len(cov)-1] != '\'' {
			return false, fmt.Sprintf("STRING covers %q", cs)
		}
		v, ok := unescapeQuoted(cov[1 : len(cov)-1])
		if !ok || v != lit {
			return false, fmt.Sprintf("string %q has literal %q", cs, lit)
		}
		return true, ""
	case influxql.BADSTRING:
		if cov[0] != '\'' && cov[0] != '"' {
			return false, fmt.Sprintf("BADSTRING covers %q", cs)
		}
		// must run to a line break or to the end of input without a closing quote
		last := cov[len(cov)-1]
		if hasNext && last != '\n' {
			return false, "BADSTRING ends before a line break or end of input"
		}
		return true, ""
	case influxql.BADESCAPE:
		if cov[0] != '\'' && cov[0] != '"' {
			return false, fmt.Sprintf("BADESCAPE covers %q", cs)
		}
		if len(cov) >= 2 && cov[len(cov)-2] == '\\' && lit == string(cov[len(cov)-2:]) {
			return true, ""
		}
		if cov[len(cov)-1] == '\\' && !hasNext { // backslash at end of input
			return true, ""
		}
		return false, fmt.Sprintf("BADESCAPE literal %q does not end the covered text %q", lit, cs)
	case influxql.NUMBER, influxql.INTEGER, influxql.DURATIONVAL:
		// "1." is the number 1: the scanner consumes the dot without copying it
		// into the literal, which changes neither value nor tiling.
		if lit != cs && !(tok == influxql.NUMBER && lit+"." == cs) {
			return false, fmt.Sprintf("%s literal %q differs from covered text %q", tok, lit, cs)
		}
		if !(cov[0] >= '0' && cov[0] <= '9') && cov[0] != '.' {
			return false, "numeric token does not start with a digit or dot"
		}
		if hasNext && next >= '0' && next <= '9' {
			return false, "numeric token stopped before more digits"
		}
		return true, ""
	case influxql.BOUNDPARAM:
		if cov[0] != '$' {
			return false, "BOUNDPARAM does not start with $"
		}
		rest := cov[1:]
		if len(rest) > 0 && rest[0] == '"' {
			if rest[len(rest)-1] != '"' || len(rest) < 2 {
				return false, "quoted parameter name does not end at a quote"
			}
			v, ok := unescapeQuoted(rest[1 : len(rest)-1])
			if !ok || "$"+v != lit {
				return false, fmt.Sprintf("parameter %q has literal %q", cs, lit)
			}
			return true, ""
		}
		if lit != cs {
			return false, fmt.Sprintf("parameter literal %q differs from %q", lit, cs)
		}
		return true, ""
	case influxql.COMMENT:
		if strings.HasPrefix(cs, "--") {
			if hasNext && cov[len(cov)-1] != '\n' {
				return false, "line comment ends before the line break"
			}
			if strings.ContainsRune(string(cov[:len(cov)-1]), '\n') {
				return false, "line comment spans a line break"
			}
			return true, ""
		}
		if strings.HasPrefix(cs, "/*") && strings.HasSuffix(cs, "*/") && len(cov) >= 4 && !strings.Contains(string(cov[2:len(cov)-2])+"x", "*/") {
			return true, ""
		}
		return false, fmt.Sprintf("COMMENT covers %q", cs)
	case influxql.ILLEGAL:
		if strings.HasPrefix(cs, "/*") && !hasNext {
			return true, "" // unterminated block comment runs to the end
		}
		if len(cov) == 1 && (lit == cs) {
			return true, ""
		}
		return false, fmt.Sprintf("ILLEGAL literal %q covers %q", lit, cs)
	case influxql.TRUE, influxql.FALSE, influxql.AND, influxql.OR:
		if influxql.Lookup(cs) != tok {
			return false, fmt.Sprintf("%s covers %q", tok, cs)
		}
		if hasNext && isIdentRune(next) {
			return false, "keyword stopped before more identifier characters"
		}
		return true, ""
	}
	// keywords
	if influxql.Lookup(cs) == tok && tok != influxql.IDENT {
		if hasNext && isIdentRune(next) {
			return false, "keyword stopped before more identifier characters"
		}
		return true, ""
	}
	return false, fmt.Sprintf("token %s (%d) with literal %q covers %q", tok, int(tok), lit, cs)
}

// c05Scan tiles one text. regexAt marks folded offsets where ScanRegex is
// called instead of Scan (the parser does that when it expects a regex).
func c05Scan(c *Ctx, text string, regexAt map[int]bool, local map[string]int64) {
	r := c.R
	f := foldText(text)
	det := func(why string, i int) map[string]interface{} {
		var ro []int
		for k := range regexAt {
			ro = append(ro, k)
		}
		return map[string]interface{}{"sub": "scan", "input": text, "hex": fmt.Sprintf("%x", text), "token_index": i, "regex_at": ro, "why": why}
	}
	var viol func()
	p, pv, stk := mon.Try(func() {
		s := influxql.NewScanner(c05Reader(text))
		start := 0
		for i := 0; ; i++ {
			if i > len(f)+2 {
				viol = func() { r.Violation("no-EOF", det(fmt.Sprintf("no EOF after %d tokens on %d runes", i, len(f)), i)) }
				return
			}
			var tok influxql.Token
			var pos influxql.Pos
			var lit string
			if regexAt[start] && start < len(f) && f[start] == '/' {
				tok, pos, lit = s.ScanRegex()
				local["tok.via-ScanRegex"]++
			} else {
				tok, pos, lit = s.Scan()
			}
			end := s.VerifConsumed()
			if end > len(f) {
				end = len(f)
			}
			local["tokens"]++
			local[fmt.Sprintf("tok.%s", tokName(tok))]++
			if tok == influxql.EOF {
				if start != len(f) {
					viol = func() {
						r.Violation("EOF-before-end", det(fmt.Sprintf("EOF reported at offset %d of %d", start, len(f)), i))
					}
					return
				}
				// EOF has no first character, so the property does not fix its
				// position to a column; it must be on the last line, at the end
				// of the text or one past it (the reader counts the EOF marker
				// once when an earlier token already ran into it; pinned by the
				// existing parser tests, e.g. "SELECT" -> "char 8").
				if want := posAt(f, len(f)); pos.Line != want.Line || (pos.Char != want.Char && pos.Char != want.Char+1) {
					viol = func() {
						r.Violation("EOF-position", det(fmt.Sprintf("EOF position %v, end of text is %v", pos, want), i))
					}
				}
				return
			}
			if end <= start {
				viol = func() {
					r.Violation("token-consumes-nothing-or-rewinds", det(fmt.Sprintf("token %s: extent [%d,%d)", tok, start, end), i))
				}
				return
			}
			cov := f[start:end]
			var next rune
			hasNext := end < len(f)
			if hasNext {
				next = f[end]
			}
			if tok == influxql.REGEX || tok == influxql.BADREGEX {
				// content of a regex token: /…/ with \/ unescaped
				if tok == influxql.REGEX {
					inner := string(cov[1 : len(cov)-1])
					if cov[0] != '/' || cov[len(cov)-1] != '/' || strings.ReplaceAll(inner, `\/`, `/`) != lit {
						viol = func() {
							r.Violation("token-content", det(fmt.Sprintf("REGEX literal %q covers %q", lit, string(cov)), i))
						}
						return
					}
				}
			} else if ok, why := contentOK(tok, lit, cov, next, hasNext); !ok {
				if ((tok == influxql.IDENT || tok == influxql.BADSTRING || tok == influxql.BADESCAPE) && barePrefixThenQuote(cov)) ||
					((tok == influxql.BOUNDPARAM || tok == influxql.BADSTRING || tok == influxql.BADESCAPE) && cov[0] == '$' && barePrefixThenQuote(cov[1:])) {
					if r.Known("bare-prefix-before-quoted-ident-dropped", text) {
						start = end
						continue
					}
				}
				viol = func() { r.Violation("token-content", det(why, i)) }
				return
			}
			want := posAt(f, start)
			if pos != want {
				prev := influxql.Pos{}
				if start > 0 {
					prev = posAt(f, start-1)
				}
				known := ""
				switch {
				case (tok == influxql.STRING || tok == influxql.BADSTRING) && pos == prev:
					known = "string-pos-prev-rune"
				case (tok == influxql.REGEX || tok == influxql.BADREGEX) && pos == prev:
					known = "regex-pos-prev-rune"
				case tok == influxql.BADESCAPE && (pos == posAt(f, end-1) || pos == posAt(f, end)):
					known = "badescape-pos"
				}
				if known == "" || !r.Known(known, text) {
					viol = func() {
						r.Violation("token-position", det(fmt.Sprintf("token %s %q at folded offset %d reported at %v, first character is at %v", tok, lit, start, pos, want), i))
					}
					return
				}
			} else {
				local["positions-exact"]++
			}
			start = end
		}
	})
	r.Eval(1)
	if p {
		d := det(fmt.Sprint(pv), -1)
		d["stack"] = stk
		r.Violation("panic-in-scanner", d)
		return
	}
	if viol != nil {
		viol()
		return
	}
	local["texts-tiled"]++
}

// barePrefixThenQuote recognises the shape of the known finding: bare
// identifier characters immediately followed by a double quote.
func barePrefixThenQuote(cov []rune) bool {
	i := 0
	for i < len(cov) && isIdentRune(cov[i]) {
		i++
	}
	return i > 0 && i < len(cov) && cov[i] == '"'
}

func tokName(t influxql.Token) string {
	switch t {
	case influxql.BOUNDPARAM:
		return "BOUNDPARAM"
	case influxql.INTEGER:
		return "INTEGER"
	case influxql.BADREGEX:
		return "BADREGEX"
	case influxql.COMMENT:
		return "COMMENT"
	}
	if t > influxql.DOT {
		return "keyword"
	}
	return t.String()
}

type c05lex struct {
	text  string
	regex bool
}

// c05Reader delivers the text the way different sources do: all at once, a
// byte at a time, in halves, or in chunks that end right after every CR (the
// two bytes of a CRLF then arrive in different reads). Chosen by a hash of the
// text, so a replay uses the same delivery.
func c05Reader(text string) io.Reader {
	switch mon.Hash64(text) % 8 {
	case 0:
		return iotest.OneByteReader(strings.NewReader(text))
	case 1:
		return iotest.HalfReader(strings.NewReader(text))
	case 2:
		return &crChunkReader{s: text}
	case 3:
		return iotest.DataErrReader(strings.NewReader(text))
	case 4:
		return &thenFailReader{s: text}
	}
	return strings.NewReader(text)
}

// thenFailReader delivers the whole text and from then on fails with an
// error that is not io.EOF (a connection that was reset): the input has ended
// all the same.
type thenFailReader struct{ s string }

func (r *thenFailReader) Read(p []byte) (int, error) {
	if len(r.s) == 0 {
		return 0, errors.New("connection reset by peer")
	}
	n := copy(p, r.s)
	r.s = r.s[n:]
	return n, nil
}

type crChunkReader struct{ s string }

func (r *crChunkReader) Read(p []byte) (int, error) {
	if len(r.s) == 0 {
		return 0, io.EOF
	}
	n := len(r.s)
	if i := strings.IndexByte(r.s, '\r'); i >= 0 {
		n = i + 1
	}
	if n > len(p) {
		n = len(p)
	}
	copy(p, r.s[:n])
	r.s = r.s[n:]
	return n, nil
}

func c05Lexemes() []c05lex {
	var l []c05lex
	add := func(ss ...string) {
		for _, s := range ss {
			l = append(l, c05lex{s, false})
		}
	}
	for t := influxql.Token(0); t < 200; t++ {
		n := t.String()
		if n != "" && influxql.Lookup(n) != influxql.IDENT {
			add(n)
		}
	}
	add("select", "Where", "true", "FALSE", "and", "Or")
	add("abc", "_x1", "A9", `"q t"`, `"esc\"q"`, `"nl\nx"`, `""`, `"é"`, `"it's"`)
	add(`'s'`, `''`, `'it\'s'`, `'a\\b'`, `'é日本'`, `'d"q'`, `'x\ny'`)
	add("1", "12.5", ".5", "1.", "007", "10s", "1h30m", "5µ", "3u", "9223372036854775808", "1e5", "2ms3")
	add("$p", `$"p q"`, "$", "$1", "$_a")
	add("-- c\n", "-- c", "--\n", "/* c */", "/* * / ** */", "/**/", "/* multi\nline */")
	add(`'abc`, `"abc`, "/* abc", `'ab\n`, "'a\nb'")
	add(`'a\qb'`, `"a\zb"`, `'x\`)
	add("?", "#", "!", "@", "~", "é", "日", "é", "\xff", "\xc3", "`", "[", "{", "\\")
	// control and blank-like characters that are not InfluxQL whitespace
	add("\x00", "\x01", "\x7f", "\v", "\f", "\u0085", "\u00a0", "\u2028", "\ufeff", "\ufffd", "'a\x00b'", "\"a\x00b\"", "a\x00b", "1\x00", "/* \x00 */", "-- \x00\n")
	for _, sp := range opSpell {
		add(sp...)
	}
	l = append(l, c05lex{"/re/", true}, c05lex{`/a\/b/`, true}, c05lex{"/unterminated", true}, c05lex{"/a\nb/", true}, c05lex{"//", true}, c05lex{`/\d+(x|y)/`, true})
	return l
}

var c05seps = []string{"", " ", "\t", "\n", "\r", "\r\n", " \r\n\t ", "\n\n", "é ", " /* c */ ", " -- c\r\n"}

func init() { Registry["C05"] = checkC05 }

func checkC05(c *Ctx) (string, bool, []string) {
	r := c.R
	rule := "every ordered pair of lexeme spellings (all keywords, operators, punctuation, identifiers, strings, numbers, durations, parameters, comments, unterminated and bad-escape forms, illegal and multi-byte characters, regexes via ScanRegex) x 11 separators, at offset 0, mid-text and at EOF; random texts of 1-40 lexemes; texts of 0.5-128 KB in which a CRLF, CR, LF or multi-byte character starts at every byte offset within 4 of 512, 1024, 4096, ... 131072, behind six kinds of filler (blanks, short words, one long comment / string / identifier, multi-byte words); multi-line statements with one unexpected token, and generated statements of all kinds with one token replaced by an illegal character, for ParseError.Pos; nine regex literals that do not compile, each at thousands of different positions (the error must point at the opening slash). Every text reaches the scanner through a reader chosen by a hash of the text: whole, one byte per read, halves, chunks ending after every CR, data together with EOF. Non-trivial = text has >=2 lexemes; distinct by text."
	assume := []string{"NUL is outside the domain (rune 0 is the scanner's in-band EOF marker)", "extents come from the verif hook counter VerifConsumed(), not from reported positions"}
	lex := c05Lexemes()
	if c.Replay != nil && replayStr(c, "sub") == "badregex" {
		c05BadRegexPos(c, replayInt(c, "idx"), map[string]int64{})
		return rule, false, assume
	}
	if c.Replay != nil {
		local := map[string]int64{}
		switch replayStr(c, "sub") {
		case "scan":
			var b []byte
			fmt.Sscanf(replayStr(c, "hex"), "%x", &b)
			ra := map[int]bool{}
			if xs, ok := c.Replay["regex_at"].([]interface{}); ok {
				for _, x := range xs {
					ra[int(x.(float64))] = true
				}
			}
			c05Scan(c, string(b), ra, local)
		case "errpos":
			c05ErrPos(c, replayStr(c, "input"), replayInt(c, "offset"), local)
		case "errgen":
			c05ErrPosGen(c, replayInt(c, "idx"), local)
		case "direct":
			c05AfterAnother(c)
		}
		return rule, false, assume
	}
	c05AfterAnother(c) // first and sequentially: nothing else has parsed yet
	n := len(lex)
	mon.Parallel(n*n, c.Workers, func(idx int) {
		local := map[string]int64{}
		a, b := lex[idx/n], lex[idx%n]
		for si, sep := range c05seps {
			text := a.text + sep + b.text
			ra := map[int]bool{}
			if a.regex {
				ra[0] = true
			}
			if b.regex {
				ra[len(foldText(a.text+sep))] = true
			}
			c05Scan(c, text, ra, local)
			r.Distinct(uint64(idx)*16 + uint64(si))
			// the same pair in the middle of a text, after a line break and a multi-byte rune
			if si%3 == 0 {
				pre := "x\r\né "
				text2 := pre + text + "\n z"
				ra2 := map[int]bool{}
				for k := range ra {
					ra2[k+len(foldText(pre))] = true
				}
				c05Scan(c, text2, ra2, local)
			}
		}
		if idx%9001 == 11 {
			r.Sample(map[string]string{"text": a.text + " " + b.text})
		}
		r.MergeCounts(local)
	})
	r.Count("pairs.enumerated", int64(n*n*len(c05seps)))
	nrand := c.N(50000, 2000000)
	mon.Parallel(nrand, c.Workers, func(i int) {
		rg := mon.NewRng(c.Seed, "c05.rand", i)
		local := map[string]int64{}
		var b strings.Builder
		ra := map[int]bool{}
		k := rg.Range(1, 40)
		for j := 0; j < k; j++ {
			lx := lex[rg.Intn(len(lex))]
			if lx.regex {
				ra[len(foldText(b.String()))] = true
			}
			b.WriteString(lx.text)
			b.WriteString(c05seps[rg.Intn(len(c05seps))])
		}
		// regexAt offsets are only honoured when the scanner actually is at that offset with '/' next
		c05Scan(c, b.String(), ra, local)
		r.DistinctStr(b.String())
		local["random-texts"]++
		r.MergeCounts(local)
	})
	// long texts: a line break, a multi-byte character or a token boundary at
	// and around the byte offsets where an input buffer is refilled
	type lt struct {
		b, d, fill, brk int
	}
	var lts []lt
	for _, b := range []int{512, 1024, 4096, 8192, 16384, 32768, 65536, 131072} {
		for d := -4; d <= 4; d++ {
			for fill := 0; fill < 6; fill++ {
				if b > 16384 && (fill == 1 || fill == 5) {
					continue // tens of thousands of tokens: the few-token fillers reach the same offsets
				}
				for brk := 0; brk < 4; brk++ {
					lts = append(lts, lt{b, d, fill, brk})
				}
			}
		}
	}
	mon.Parallel(len(lts), c.Workers, func(i int) {
		local := map[string]int64{}
		x := lts[i]
		n := x.b + x.d // byte offset at which the break starts
		var sb strings.Builder
		sb.WriteString("SELECT a\n")
		rest := n - sb.Len()
		switch x.fill {
		case 0:
			sb.WriteString(strings.Repeat(" ", rest))
		case 1:
			for sb.Len()+3 <= n {
				sb.WriteString("ab ")
			}
			sb.WriteString(strings.Repeat(" ", n-sb.Len()))
		case 2:
			sb.WriteString("/*" + strings.Repeat("c", rest-4) + "*/")
		case 3:
			sb.WriteString("'" + strings.Repeat("s", rest-2) + "'")
		case 4:
			sb.WriteString(strings.Repeat("i", rest))
		default:
			for sb.Len()+3 <= n {
				sb.WriteString("é ")
			}
			sb.WriteString(strings.Repeat(" ", n-sb.Len()))
		}
		sb.WriteString([]string{"\r\n", "\r", "\n", "é"}[x.brk])
		sb.WriteString("FROM m\r\nWHERE x = 'é' \r\n AND ?")
		c05Scan(c, sb.String(), nil, local)
		r.DistinctStr(fmt.Sprintf("long|%d|%d|%d|%d", x.b, x.d, x.fill, x.brk))
		local["long-texts"]++
		r.MergeCounts(local)
	})
	// ParseError.Pos
	c05ErrPosAll(c)
	ngen := c.N(30000, 600000)
	mon.Parallel(ngen, c.Workers, func(i int) {
		local := map[string]int64{}
		c05ErrPosGen(c, i, local)
		r.MergeCounts(local)
	})
	mon.Parallel(c.N(6000, 200000), c.Workers, func(i int) {
		local := map[string]int64{}
		c05BadRegexPos(c, i, local)
		r.MergeCounts(local)
	})
	r.Require(r.Counter("badregex.position-checked") > 0, "bad-regex error positions never checked")
	r.Require(r.Counter("errgen.checked") > 0, "generated error positions never checked")
	for _, k := range []string{"tok.IDENT", "tok.STRING", "tok.BADSTRING", "tok.BADESCAPE", "tok.NUMBER", "tok.INTEGER", "tok.DURATIONVAL", "tok.BOUNDPARAM", "tok.COMMENT", "tok.ILLEGAL", "tok.WS", "tok.keyword", "tok.REGEX", "tok.BADREGEX", "tok.via-ScanRegex", "errpos.checked"} {
		r.Require(r.Counter(k) > 0, k+" never observed")
	}
	r.Require(utf8.RuneError == 0xFFFD, "")
	return rule, false, assume
}

var c05Stmts = []string{
	"SELECT mean(value) AS m, host\r\nFROM db.rp.cpu, /re/\nWHERE host = 'a' AND \"é\" > 1.5\rGROUP BY time(10m), host fill(none)\nORDER BY time DESC LIMIT 10 OFFSET 2",
	"CREATE RETENTION POLICY \"my rp\" ON db\n DURATION 1h REPLICATION 1\r\n SHARD DURATION 30m DEFAULT",
	"SHOW TAG VALUES ON db FROM cpu\nWITH KEY IN (a, b)\nWHERE x = 1 LIMIT 5",
	"CREATE CONTINUOUS QUERY cq ON db RESAMPLE EVERY 10s FOR 20s\nBEGIN SELECT mean(v) INTO t FROM m GROUP BY time(10s) END",
	"DROP SERIES FROM cpu\r\nWHERE host = 'é日本' AND region =~ /us.*/",
	"GRANT ALL PRIVILEGES ON db TO \"jo hn\"",
	"SELECT a + b * (c - 2) FROM (SELECT x FROM m WHERE y > 0) WHERE z < 5",
	"ALTER RETENTION POLICY rp ON db DURATION 2d\nREPLICATION 3 DEFAULT",
	"KILL QUERY 12 ON host1; SHOW DATABASES;\nSET PASSWORD FOR u = 'pw'",
	"EXPLAIN ANALYZE SELECT count(v) FROM m TZ('UTC')",
}

// c05ErrPos inserts an illegal token `?` at byte offset off (a token
// boundary) and requires ParseError.Pos to be its position.
func c05ErrPos(c *Ctx, base string, off int, local map[string]int64) {
	r := c.R
	text := base[:off] + " ? " + base[off:]
	det := func(why string) map[string]interface{} {
		return map[string]interface{}{"sub": "errpos", "input": base, "offset": off, "mutated": text, "why": why}
	}
	var err error
	if p, pv, stk := mon.Try(func() { _, err = influxql.ParseQuery(text) }); p {
		d := det(fmt.Sprint(pv))
		d["stack"] = stk
		r.Violation("panic-in-parse", d)
		return
	}
	r.Eval(1)
	if err == nil {
		r.Violation("illegal-token-accepted", det("statement with a stray `?` token was accepted"))
		return
	}
	pe, ok := err.(*influxql.ParseError)
	if !ok {
		local["errpos.error-without-position"]++
		return
	}
	if pe.Found != "?" {
		// the parser complained about something else first (e.g. a semantic
		// check); the position then belongs to that token, not ours
		local["errpos.other-error-first"]++
		return
	}
	want := posAt(foldText(text), len(foldText(base[:off]))+1)
	if pe.Pos != want {
		r.Violation("error-position", det(fmt.Sprintf("error %q reports %v, the offending token is at %v", err.Error(), pe.Pos, want)))
		return
	}
	if !strings.Contains(err.Error(), fmt.Sprintf("line %d, char %d", want.Line+1, want.Char+1)) {
		r.Violation("error-text-position", det(fmt.Sprintf("error text %q does not quote line %d, char %d", err.Error(), want.Line+1, want.Char+1)))
		return
	}
	local["errpos.checked"]++
	// the same text behind a character that is no token of the language (a
	// byte order mark, zero-width characters, NUL, an undecodable byte): the
	// string entry point and the reader entry point must report the same
	// error, and it points either at that character (line 1, char 1) or, when
	// the parser names our `?`, at the `?`
	for _, pre := range []string{"\ufeff", "\ufeff\ufeff", "\u200b", "\u2060", "\x00", "\xef\xbb", "\ufffd", "\u00a0"} {
		t2 := pre + text
		var e1, e2 error
		if p, pv, stk := mon.Try(func() {
			_, e1 = influxql.ParseQuery(t2)
			_, e2 = influxql.NewParser(strings.NewReader(t2)).ParseQuery()
		}); p {
			r.Violation("panic-in-parse", map[string]interface{}{"sub": "errpos", "input": base, "offset": off, "mutated": t2, "why": fmt.Sprint(pv), "stack": stk})
			return
		}
		r.Eval(1)
		d2 := func(why string) map[string]interface{} {
			return map[string]interface{}{"sub": "errpos", "input": base, "offset": off, "mutated": t2, "why": why}
		}
		if e1 == nil || e2 == nil {
			r.Violation("illegal-token-accepted", d2("a text that begins with a character outside the language and holds a stray `?` was accepted"))
			return
		}
		if e1.Error() != e2.Error() {
			r.Violation("error-position", d2(fmt.Sprintf("ParseQuery(text) reports %q, NewParser(reader).ParseQuery() reports %q", e1.Error(), e2.Error())))
			return
		}
		pe, ok := e1.(*influxql.ParseError)
		if !ok {
			continue
		}
		first, _ := utf8.DecodeRuneInString(pre)
		switch {
		case pe.Found == "?":
			w := posAt(foldText(t2), len(foldText(pre+base[:off]))+1)
			if pe.Pos != w {
				r.Violation("error-position", d2(fmt.Sprintf("error %q reports %v, the offending token is at %v", e1.Error(), pe.Pos, w)))
				return
			}
		case pe.Found == string(first):
			if pe.Pos != (influxql.Pos{}) {
				r.Violation("error-position", d2(fmt.Sprintf("error %q reports %v, the offending character is the first of the text", e1.Error(), pe.Pos)))
				return
			}
		default:
			local["errpos.prefixed.other-error-first"]++
			continue
		}
		local["errpos.prefixed.checked"]++
	}
}

// c05AfterAnother: the error a text gets must not depend on what was parsed
// before it in this process - through the package-level entry points, which
// may keep parsers around, compared with a parser made for this text alone.
func c05AfterAnother(c *Ctx) {
	r := c.R
	warm := []string{"host = 'server01' AND value > 10", "a + b * (c - 1)", "time > now() - 1h\nAND x =~ /re/", "\"quoted name\" = 'v' OR f(x, 'y') < 2.5"}
	probes := []string{"'abc", "\"abc", "  'abc", "\n'abc", "'a\\qb'", "'", "\"", "'abc\ndef'", "/* open", "?", "a + ?", "'ok' = 'abc", "1 +", "(a", "x =~ /(/", "\r\n  \"open", "\u00e9 = 'abc", "'a\xff\xfeb' ?", "/* \xff\xfe\xfd */ a = ?", "\"\xc3\xc3\" = ?", "x =~ /a\xf0\x9f/ AND ?", "'\xe2\x82' = 'abc"}
	for _, w := range warm {
		for _, pr := range probes {
			var e1, e2, e3, e4, e5, e6 error
			if p, pv, stk := mon.Try(func() {
				_, _ = influxql.ParseExpr(w)
				_, e1 = influxql.ParseExpr(pr)
				_, e2 = influxql.NewParser(strings.NewReader(pr)).ParseExpr()
				_, _ = influxql.ParseStatement("SELECT v FROM m WHERE " + w)
				_, e3 = influxql.ParseStatement("SELECT v FROM m WHERE " + pr)
				_, e4 = influxql.NewParser(strings.NewReader("SELECT v FROM m WHERE " + pr)).ParseStatement()
				_, _ = influxql.ParseQuery("SELECT v FROM m WHERE " + w)
				_, e5 = influxql.ParseQuery("SELECT v FROM m WHERE " + pr)
				_, e6 = influxql.NewParser(strings.NewReader("SELECT v FROM m WHERE " + pr)).ParseQuery()
			}); p {
				r.Violation("panic-in-parse", map[string]interface{}{"sub": "direct", "input": pr, "why": fmt.Sprint(pv), "stack": stk})
				return
			}
			r.Eval(3)
			for i, pair := range [][2]error{{e1, e2}, {e3, e4}, {e5, e6}} {
				if fmt.Sprint(pair[0]) != fmt.Sprint(pair[1]) {
					r.Violation("error-position", map[string]interface{}{"sub": "direct", "input": pr, "why": fmt.Sprintf("entry point %d (0 ParseExpr, 1 ParseStatement, 2 ParseQuery): after parsing %q the text %q reports %q; a parser made for it alone reports %q", i, w, pr, fmt.Sprint(pair[0]), fmt.Sprint(pair[1]))})
					return
				}
			}
			r.Count("errpos.after-another-parse", 1)
		}
	}
}

// c05ErrPosGen replaces one token of a generated statement by an illegal
// token and requires the parse error to point at it.
func c05ErrPosGen(c *Ctx, idx int, local map[string]int64) {
	r := c.R
	rg := mon.NewRng(c.Seed, "c05.errgen", idx)
	gc := genCase(c.Seed, "c05.errgen.base", idx, -1, -1, gen.Opts{MaxDepth: 2, Hostile: idx%4 == 0}, "random")
	toks := append([]gen.Tok(nil), gc.G.B.Toks...)
	ti := rg.Intn(len(toks))
	if idx%4 == 3 {
		// truncated statement, optionally ending in a character the parser's
		// raw look-ahead inspects: the error (usually "found EOF") must point
		// at the end of the text
		toks = toks[:ti+1]
		tail := rg.Pick("", "", "/", "-", "/*", "--", "$", ".", " /", " -")
		text, _ := gen.Render(toks, gen.Layout{Rg: rg})
		text += tail
		var err error
		if p, pv, stk := mon.Try(func() { _, err = influxql.ParseQuery(text) }); p {
			r.Violation("panic-in-parse", map[string]interface{}{"sub": "errgen", "idx": idx, "input": text, "why": fmt.Sprint(pv), "stack": stk})
			return
		}
		r.Eval(1)
		r.DistinctStr("trunc|" + text)
		if pe, ok := err.(*influxql.ParseError); ok && pe.Found == "EOF" {
			f := foldText(text)
			end := posAt(f, len(f))
			if pe.Pos.Line != end.Line || (pe.Pos.Char != end.Char && pe.Pos.Char != end.Char+1) {
				r.Violation("error-position", map[string]interface{}{"sub": "errgen", "idx": idx, "input": text, "why": fmt.Sprintf("error %q: EOF reported at %v, the text ends at %v", err.Error(), pe.Pos, end)})
				return
			}
			local["errgen.eof-position-checked"]++
		}
		// no character is skipped: a trailing blank is one more WS token and
		// nothing else, so it changes neither acceptance nor the offending
		// token. (A last character that the parser's raw look-ahead loses
		// shows up here: with the blank behind it, it is seen.)
		var err2 error
		if p, pv, stk := mon.Try(func() { _, err2 = influxql.ParseQuery(text + " ") }); p {
			r.Violation("panic-in-parse", map[string]interface{}{"sub": "errgen", "idx": idx, "input": text + " ", "why": fmt.Sprint(pv), "stack": stk})
			return
		}
		r.Eval(1)
		if (err == nil) != (err2 == nil) {
			r.Violation("last-character-skipped", map[string]interface{}{"sub": "errgen", "idx": idx, "input": text, "why": fmt.Sprintf("without a trailing blank: %v; with one: %v", err, err2)})
			return
		}
		pe1, ok1 := err.(*influxql.ParseError)
		pe2, ok2 := err2.(*influxql.ParseError)
		// (where the grammar allows no blank, the blank itself is the offending
		// token: nothing to compare then)
		if ok1 && ok2 && (pe2.Found != "EOF" || pe2.Message != "") && !(pe2.Message == "" && strings.TrimSpace(pe2.Found) == "") && !c05Rewound(pe1) && !c05Rewound(pe2) {
			same := pe1.Pos == pe2.Pos && (pe1.Message == "") == (pe2.Message == "")
			if pe1.Message == "" && pe1.Found != pe2.Found {
				same = false
			}
			if !same {
				r.Violation("last-character-skipped", map[string]interface{}{"sub": "errgen", "idx": idx, "input": text, "why": fmt.Sprintf("without a trailing blank: %q; with one: %q", err.Error(), err2.Error())})
				return
			}
			local["errgen.trailing-blank-same-error"]++
		} else if err == nil {
			local["errgen.trailing-blank-both-accepted"]++
		}
		return
	}
	bad := rg.Pick("?", "#", "@", "~", "`")
	toks[ti].Text = bad
	if ti+1 < len(toks) && toks[ti+1].Gap == gen.GapNone {
		// keep what follows from fusing with what precedes
	}
	text, gaps := gen.Render(toks, gen.Layout{Rg: rg})
	off := gaps[ti].End
	det := func(why string) map[string]interface{} {
		return map[string]interface{}{"sub": "errgen", "idx": idx, "input": text, "offset": off, "why": why}
	}
	var err error
	if p, pv, stk := mon.Try(func() { _, err = influxql.ParseQuery(text) }); p {
		d := det(fmt.Sprint(pv))
		d["stack"] = stk
		r.Violation("panic-in-parse", d)
		return
	}
	r.Eval(1)
	r.DistinctStr("errgen|" + text)
	if err == nil {
		local["errgen.accepted(illegal char inside a quoted token?)"]++
		return
	}
	pe, ok := err.(*influxql.ParseError)
	if !ok || pe.Found != bad {
		local["errgen.other-error-first"]++
		return
	}
	f := foldText(text)
	want := posAt(f, len(foldText(text[:off])))
	if pe.Pos != want {
		r.Violation("error-position", det(fmt.Sprintf("error %q reports %v, the offending token is at %v", err.Error(), pe.Pos, want)))
		return
	}
	local["errgen.checked"]++
}

// c05Rewound recognises the one semantic error that is reported at a token
// found by rewinding the ring two slots (a continuous query without GROUP BY
// time): which token that is depends on how many tokens follow, by design.
func c05Rewound(pe *influxql.ParseError) bool {
	return len(pe.Expected) == 1 && pe.Expected[0] == "GROUP BY time(...)"
}

// c05BadRegexPos: a regex literal that does not compile is reported at the
// position of its opening slash, wherever in the text it stands.
func c05BadRegexPos(c *Ctx, idx int, local map[string]int64) {
	r := c.R
	rg := mon.NewRng(c.Seed, "c05.badregex", idx)
	bad := rg.Pick("se[ed", "a(b", "*x", "a{2,1}", "(?P<n", `\\p{Foo}`, "a)b", "x**", "[z-a]")
	var pre strings.Builder
	for k, n := 0, rg.Intn(6); k < n; k++ {
		pre.WriteString(rg.Pick(" ", "\n", "\r\n", "\t", "/* c */", "-- é\n", "  ", "\r"))
	}
	head := pre.String() + rg.Pick("SELECT v FROM ", "SELECT v, é FROM m WHERE h =~ ", "SELECT mean(v) FROM m\nWHERE 'é日本' = s AND\r\n h !~ ", "SHOW TAG VALUES\nWITH KEY =~ ", "SELECT v FROM db.rp.", "DROP SERIES FROM ", "SELECT v FROM m GROUP BY ")
	text := head + "/" + bad + "/" + rg.Pick("", " ", "\nLIMIT 1", " -- c")
	var err error
	if p, pv, stk := mon.Try(func() { _, err = influxql.ParseQuery(text) }); p {
		r.Violation("panic-in-parse", map[string]interface{}{"sub": "badregex", "idx": idx, "input": text, "why": fmt.Sprint(pv), "stack": stk})
		return
	}
	r.Eval(1)
	r.DistinctStr("badregex|" + text)
	pe, ok := err.(*influxql.ParseError)
	if !ok || pe.Message == "" {
		local["badregex.other-outcome"]++
		return
	}
	want := posAt(foldText(text), len(foldText(head)))
	if pe.Pos != want {
		r.Violation("error-position", map[string]interface{}{"sub": "badregex", "idx": idx, "input": text, "why": fmt.Sprintf("error %q reports %v, the regex literal starts at %v", err.Error(), pe.Pos, want)})
		return
	}
	local["badregex.position-checked"]++
}

func c05ErrPosAll(c *Ctx) {
	r := c.R
	type job struct {
		base string
		off  int
	}
	var jobs []job
	for _, base := range c05Stmts {
		// token boundaries from the scanner hook (start offsets in folded runes
		// are mapped back to byte offsets by rescanning prefixes)
		s := influxql.NewScanner(strings.NewReader(base))
		f := foldText(base)
		// map folded offset -> byte offset
		b2 := make([]int, 0, len(f)+1)
		bi := 0
		rs := base
		for bi < len(rs) {
			b2 = append(b2, bi)
			if rs[bi] == '\r' && bi+1 < len(rs) && rs[bi+1] == '\n' {
				bi += 2
				continue
			}
			_, w := utf8.DecodeRuneInString(rs[bi:])
			bi += w
		}
		b2 = append(b2, len(rs))
		start := 0
		inRegex := false
		for i := 0; i < len(f)+2; i++ {
			tok, _, _ := s.Scan()
			if tok == influxql.EOF {
				break
			}
			end := s.VerifConsumed()
			if end > len(f) {
				end = len(f)
			}
			// the statements use '/' only to delimit regexes: boundaries strictly
			// inside /…/ are regex text, not token boundaries
			if tok != influxql.WS && tok != influxql.COMMENT && !inRegex {
				jobs = append(jobs, job{base, b2[start]})
			}
			if tok == influxql.DIV {
				inRegex = !inRegex
			}
			start = end
		}
		jobs = append(jobs, job{base, len(base)})
	}
	mon.Parallel(len(jobs), c.Workers, func(i int) {
		local := map[string]int64{}
		c05ErrPos(c, jobs[i].base, jobs[i].off, local)
		r.DistinctStr(fmt.Sprintf("errpos|%s|%d", jobs[i].base, jobs[i].off))
		r.MergeCounts(local)
	})
	r.Sample(map[string]interface{}{"errpos_statement": c05Stmts[0], "injected": "` ? ` at every token boundary"})
}
