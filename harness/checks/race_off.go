//go:build !race

package checks

const raceEnabled = false
