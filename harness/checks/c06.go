package checks

import (
	"errors"
	"fmt"
	"io"
	"strings"
	"unicode"
	"unicode/utf8"

	"github.com/influxdata/influxql"
	"verifharness/mon"
)

// C06 — quoting helpers invert the lexer and cannot be broken out of.
//
// Oracle: the scanner itself (the property says the helpers invert it) and,
// for statement templates, the AST of the same template with a benign marker.

type scTok struct {
	tok influxql.Token
	lit string
}

// scanAll scans text to EOF (bounded) and returns the tokens before EOF.
func scanAll(text string) (toks []scTok, ok bool) {
	s := influxql.NewScanner(strings.NewReader(text))
	for i := 0; i < len(text)+3; i++ {
		tok, _, lit := s.Scan()
		if tok == influxql.EOF {
			return toks, true
		}
		toks = append(toks, scTok{tok, lit})
	}
	return toks, false
}

func expressible(s string) bool {
	return utf8.ValidString(s) && !strings.ContainsAny(s, "\x00\r")
}

type c06slot struct {
	name   string
	ident  bool // slot takes QuoteIdent(s), otherwise QuoteString(s)
	text   func(q string) string
	marker string
}

const c06tail = "; DROP DATABASE keep"

var c06slots = []c06slot{
	{"where-value", false, func(q string) string { return "SELECT v FROM m WHERE h = " + q + " AND sentinel = 1" + c06tail }, ""},
	{"tag-key", true, func(q string) string { return "SELECT v FROM m WHERE " + q + " = 'x' AND sentinel = 1" + c06tail }, ""},
	{"measurement", true, func(q string) string { return "SELECT v FROM " + q + " WHERE sentinel = 1" + c06tail }, ""},
	{"database", true, func(q string) string { return "SELECT v FROM " + q + ".rp.m WHERE sentinel = 1" + c06tail }, ""},
	{"retention-policy", true, func(q string) string { return "SELECT v FROM db." + q + ".m WHERE sentinel = 1" + c06tail }, ""},
	{"alias", true, func(q string) string { return "SELECT v AS " + q + " FROM m WHERE sentinel = 1" + c06tail }, ""},
	{"password", false, func(q string) string { return "CREATE USER u WITH PASSWORD " + q + c06tail }, ""},
	{"user", true, func(q string) string { return "CREATE USER " + q + " WITH PASSWORD 'pw'" + c06tail }, ""},
	{"destination", false, func(q string) string {
		return "CREATE SUBSCRIPTION s ON db.rp DESTINATIONS ALL " + q + ", 'udp://keep:1'" + c06tail
	}, ""},
	{"module", false, func(q string) string { return "SHOW STATS FOR " + q + c06tail }, ""},
	{"into", true, func(q string) string { return "SELECT v INTO " + q + " FROM m WHERE sentinel = 1" + c06tail }, ""},
	{"field-ref", true, func(q string) string { return "SELECT " + q + ", sentinel FROM m" + c06tail }, ""},
	{"with-key", true, func(q string) string { return "SHOW TAG VALUES WITH KEY = " + q + " WHERE sentinel = 1" + c06tail }, ""},
	{"order-by-host", true, func(q string) string { return "KILL QUERY 7 ON " + q + c06tail }, ""},
}

const c06marker = "mZq0"

var c06base = map[string]string{}

func c06Baseline(sl c06slot) string {
	q := "'" + c06marker + "'"
	if sl.ident {
		q = `"` + c06marker + `"`
	}
	qy, err := influxql.ParseQuery(sl.text(q))
	if err != nil {
		panic("harness: C06 template does not parse: " + sl.name + ": " + err.Error())
	}
	return dumpOf(qy)
}

func init() {
	Registry["C06"] = checkC06
	for _, sl := range c06slots {
		c06base[sl.name] = c06Baseline(sl)
	}
}

// c06Helpers checks (a) and (b) for one string.
func c06Helpers(c *Ctx, s string, local map[string]int64) {
	r := c.R
	det := func(why string) map[string]interface{} {
		return map[string]interface{}{"sub": "helpers", "input": s, "hex": fmt.Sprintf("%x", s), "why": why}
	}
	if !expressible(s) {
		return
	}
	var qs, qi string
	var needs bool
	if p, pv, st := mon.Try(func() {
		qs, qi = influxql.QuoteString(s), influxql.QuoteIdent(s)
		needs = influxql.IdentNeedsQuotes(s)
	}); p {
		d := det(fmt.Sprint(pv))
		d["stack"] = st
		r.Violation("panic-in-quote-helper", d)
		return
	}
	r.Eval(1)
	local["helpers.strings"]++
	if t, ok := scanAll(qs); !ok || len(t) != 1 || t[0].tok != influxql.STRING || t[0].lit != s {
		r.Violation("QuoteString-not-inverse", det(fmt.Sprintf("QuoteString=%q scans as %v", qs, t)))
		return
	}
	if t, ok := scanAll(qi); !ok || len(t) != 1 || t[0].tok != influxql.IDENT || t[0].lit != s {
		r.Violation("QuoteIdent-not-inverse", det(fmt.Sprintf("QuoteIdent=%q scans as %v", qi, t)))
		return
	}
	if s != "" {
		t, ok := scanAll(s)
		bareOK := ok && len(t) == 1 && t[0].tok == influxql.IDENT && t[0].lit == s
		if bareOK == needs {
			r.Violation("IdentNeedsQuotes-disagrees-with-lexer", det(fmt.Sprintf("IdentNeedsQuotes=%v but bare text scans as %v", needs, t)))
			return
		}
		if !needs {
			local["helpers.bare-ok"]++
		}
	}
}

// c06Template places the quoted value into one statement slot.
func c06Template(c *Ctx, sl c06slot, s string, local map[string]int64) {
	r := c.R
	var q string
	if sl.ident {
		q = influxql.QuoteIdent(s)
	} else {
		q = influxql.QuoteString(s)
	}
	text := sl.text(q)
	det := func(why string) map[string]interface{} {
		return map[string]interface{}{"sub": "template", "slot": sl.name, "input": text, "value": s, "hex": fmt.Sprintf("%x", s), "why": why}
	}
	var qy *influxql.Query
	var err error
	if p, pv, st := mon.Try(func() { qy, err = influxql.ParseQuery(text) }); p {
		d := det(fmt.Sprint(pv))
		d["stack"] = st
		r.Violation("panic-in-parse", d)
		return
	}
	r.Eval(1)
	local["template."+sl.name]++
	if err != nil {
		if expressible(s) {
			r.Violation("quoted-value-rejected", det("expressible value, quoted by the helper, is rejected in this slot: "+err.Error()))
			return
		}
		local["template.inexpressible-rejected"]++
		return
	}
	got := strings.Split(dumpOf(qy), "\n")
	want := strings.Split(c06base[sl.name], "\n")
	if len(got) != len(want) {
		r.Violation("structure-changed", det(fmt.Sprintf("statement structure differs from the template (dump has %d lines, template %d)", len(got), len(want))))
		return
	}
	markerLines := 0
	for i := range want {
		if want[i] == got[i] {
			continue
		}
		if !strings.Contains(want[i], c06marker) {
			r.Violation("surrounding-text-altered", det("differs outside the slot: want "+want[i]+" | got "+got[i]))
			return
		}
		wi := strings.Index(want[i], " = ")
		if wi < 0 || !strings.HasPrefix(got[i], want[i][:wi+3]) {
			r.Violation("slot-node-changed", det("want "+want[i]+" | got "+got[i]))
			return
		}
		markerLines++
		if expressible(s) {
			exp := strings.Replace(want[i], fmt.Sprintf("%q", c06marker), fmt.Sprintf("%q", s), 1)
			// joined names (field refs) embed the marker inside a longer string
			if exp != got[i] && !strings.Contains(got[i], strings.Trim(fmt.Sprintf("%q", s), `"`)) {
				r.Violation("slot-value-wrong", det("want "+exp+" | got "+got[i]))
				return
			}
		}
	}
	// the accepted statement printed by the library (which quotes the value
	// again) reads back as the same statement
	if expressible(s) && len(s) < 1<<16 {
		var printed string
		var back *influxql.Query
		var err2 error
		if p, pv, st := mon.Try(func() { printed = qy.String(); back, err2 = influxql.ParseQuery(unredactAll(printed, qy)) }); p {
			d := det(fmt.Sprint(pv))
			d["stack"] = st
			r.Violation("panic-in-print", d)
			return
		}
		if err2 != nil || dumpOf(back) != dumpOf(qy) {
			r.Violation("printed-value-reads-back-differently", det(fmt.Sprintf("printed as %q (err %v)", trunc(printed, 300), err2)))
			return
		}
		local["template.printed-and-read-back"]++
	}
	local["template.ok"]++
	// the same text from a reader that fails once, with an error that is not
	// io.EOF, in the middle of the quoted value and delivers the rest
	// afterwards: whatever the parser makes of that, the literal must not end
	// where the reader hiccuped
	if (q[0] == '\'' || q[0] == '"') && len(q) > 2 && len(text) < 4096 && mon.Hash64(text)%5 == 0 {
		at := strings.Index(text, q)
		for _, cut := range []int{at + 1, at + len(q)/2, at + len(q) - 1} {
			var q2 *influxql.Query
			var err2 error
			if p, pv, st := mon.Try(func() {
				q2, err2 = influxql.NewParser(&hiccupReader{s: text, at: cut}).ParseQuery()
			}); p {
				d := det(fmt.Sprint(pv))
				d["stack"] = st
				r.Violation("panic-in-parse", d)
				return
			}
			r.Eval(1)
			if err2 == nil && dumpOf(q2) != dumpOf(qy) {
				r.Violation("structure-changed", det(fmt.Sprintf("read from a reader that reports a transient error after %d bytes (inside the quoted value), the text is accepted as %s", cut, trunc(q2.String(), 300))))
				return
			}
			local["template.reader-error-inside-value"]++
		}
	}
}

// hiccupReader delivers s[:at], then fails once with a non-EOF error, then
// delivers the rest.
type hiccupReader struct {
	s    string
	at   int
	pos  int
	done bool
}

func (h *hiccupReader) Read(p []byte) (int, error) {
	if h.pos >= len(h.s) {
		return 0, io.EOF
	}
	end := len(h.s)
	if !h.done {
		if h.pos >= h.at {
			h.done = true
			return 0, errors.New("i/o timeout")
		}
		end = h.at
	}
	n := copy(p, h.s[h.pos:end])
	h.pos += n
	return n, nil
}

// unredactAll puts passwords back into a printed query (C15 is about their
// absence; here only the rest of the text matters).
func unredactAll(printed string, q *influxql.Query) string {
	for _, st := range q.Statements {
		printed = unredact(printed, st)
	}
	return printed
}

// c06Multi checks multi-part names.
func c06Multi(c *Ctx, parts [3]string, local map[string]int64) {
	r := c.R
	for _, p := range parts {
		if !expressible(p) {
			return
		}
	}
	q := influxql.QuoteIdent(parts[0], parts[1], parts[2])
	det := func(in, why string) map[string]interface{} {
		return map[string]interface{}{"sub": "multi", "input": in, "parts": []string{parts[0], parts[1], parts[2]}, "why": why}
	}
	r.Eval(1)
	local["multi.names"]++
	// the caller's own slice of parts, spread into the call and used again:
	// the helper only reads it, and answers the same the second time
	own := []string{parts[0], parts[1], parts[2]}
	q1 := influxql.QuoteIdent(own...)
	if own[0] != parts[0] || own[1] != parts[1] || own[2] != parts[2] {
		r.Violation("QuoteIdent-changed-its-arguments", det(q1, fmt.Sprintf("the slice passed as QuoteIdent(parts...) holds %q afterwards", own)))
		return
	}
	if q2 := influxql.QuoteIdent(own...); q1 != q || q2 != q {
		r.Violation("QuoteIdent-not-a-function", det(q, fmt.Sprintf("QuoteIdent(a, b, c)=%q, QuoteIdent(parts...)=%q, again=%q", trunc(q, 200), trunc(q1, 200), trunc(q2, 200))))
		return
	}
	for k := 1; k <= 2; k++ {
		sub := own[:k]
		_ = influxql.QuoteIdent(sub...)
		if own[0] != parts[0] || own[1] != parts[1] || own[2] != parts[2] {
			r.Violation("QuoteIdent-changed-its-arguments", det(q1, fmt.Sprintf("after QuoteIdent(parts[:%d]...) the caller's slice holds %q", k, own)))
			return
		}
	}
	// as a source
	text := "SELECT v FROM " + q + " WHERE sentinel = 1"
	st, err, pan, pv, _ := parseQuery1(text)
	if pan || err != nil {
		r.Violation("multi-part-source-rejected", det(text, fmt.Sprint(err, pv)))
		return
	}
	sel := st.(*influxql.SelectStatement)
	m, ok := sel.Sources[0].(*influxql.Measurement)
	if !ok || len(sel.Sources) != 1 || m.Database != parts[0] || m.RetentionPolicy != parts[1] || m.Name != parts[2] || m.Regex != nil || sel.Condition == nil || sel.Condition.String() != "sentinel = 1" {
		r.Violation("multi-part-source-wrong", det(text, fmt.Sprintf("got %#v", m)))
		return
	}
	// the statement's own printer quotes the parts again: same parts, same rest
	if back, err2, pan2, _, _ := parseQuery1(st.String()); pan2 || err2 != nil || dumpOf(back) != dumpOf(st) {
		r.Violation("multi-part-source-wrong", det(text, fmt.Sprintf("printed as %q, which reads back differently (err %v)", trunc(st.String(), 300), err2)))
		return
	}
	// as INTO target
	text = "SELECT v INTO " + q + " FROM m WHERE sentinel = 1"
	st, err, pan, pv, _ = parseQuery1(text)
	if pan || err != nil {
		r.Violation("multi-part-target-rejected", det(text, fmt.Sprint(err, pv)))
		return
	}
	sel = st.(*influxql.SelectStatement)
	if sel.Target == nil || sel.Target.Measurement.Database != parts[0] || sel.Target.Measurement.RetentionPolicy != parts[1] || sel.Target.Measurement.Name != parts[2] || sel.Condition == nil || sel.Condition.String() != "sentinel = 1" {
		r.Violation("multi-part-target-wrong", det(text, fmt.Sprintf("got %#v", sel.Target)))
		return
	}
	// as a field reference
	text = "SELECT " + q + ", sentinel FROM m"
	st, err, pan, pv, _ = parseQuery1(text)
	if pan || err != nil {
		r.Violation("multi-part-ref-rejected", det(text, fmt.Sprint(err, pv)))
		return
	}
	sel = st.(*influxql.SelectStatement)
	ref, ok := sel.Fields[0].Expr.(*influxql.VarRef)
	if !ok || len(sel.Fields) != 2 || ref.Val != parts[0]+"."+parts[1]+"."+parts[2] || ref.Type != influxql.Unknown {
		r.Violation("multi-part-ref-wrong", det(text, fmt.Sprintf("got %v", sel.Fields[0].Expr)))
		return
	}
	if back, err2, pan2, _, _ := parseQuery1(st.String()); pan2 || err2 != nil || dumpOf(back) != dumpOf(st) {
		r.Violation("multi-part-ref-wrong", det(text, fmt.Sprintf("printed as %q, which reads back differently (err %v)", trunc(st.String(), 300), err2)))
		return
	}
	local["multi.ok"]++
	c06Built(c, parts, local)
	if parts[2] != "" {
		c06Built(c, [3]string{parts[0], parts[1], ""}, local)
	}
}

// c06Built: the same names in a statement built through the AST, with one
// measurement node standing both as INTO target and as source (as a program
// that copies a measurement onto itself builds it): printed twice, the text
// is the same, reads back with these names, and the node is as it was.
func c06Built(c *Ctx, parts [3]string, local map[string]int64) {
	r := c.R
	m := &influxql.Measurement{Database: parts[0], RetentionPolicy: parts[1], Name: parts[2]}
	stmt := &influxql.SelectStatement{Fields: influxql.Fields{{Expr: &influxql.VarRef{Val: "v"}}}, Target: &influxql.Target{Measurement: m}, Sources: influxql.Sources{m}, IsRawQuery: true}
	det := func(why string) map[string]interface{} {
		return map[string]interface{}{"sub": "multi", "input": "hand-built SELECT v INTO <m> FROM <m>", "parts": []string{parts[0], parts[1], parts[2]}, "why": why}
	}
	var s1, s2, src string
	if p, pv, stk := mon.Try(func() { s1 = stmt.String(); s2 = stmt.String(); src = stmt.Sources.String() }); p {
		d := det(fmt.Sprint(pv))
		d["stack"] = stk
		r.Violation("panic-in-print", d)
		return
	}
	r.Eval(1)
	if s1 != s2 || !strings.HasSuffix(s1, " FROM "+src) {
		r.Violation("multi-part-source-wrong", det(fmt.Sprintf("printed %q, then %q; the sources alone print %q", trunc(s1, 200), trunc(s2, 200), trunc(src, 200))))
		return
	}
	if *m != (influxql.Measurement{Database: parts[0], RetentionPolicy: parts[1], Name: parts[2]}) {
		r.Violation("multi-part-source-wrong", det(fmt.Sprintf("printing changed the measurement node to %#v", *m)))
		return
	}
	back, err, pan, _, _ := parseQuery1(s1)
	if pan || err != nil {
		r.Violation("multi-part-source-rejected", det(fmt.Sprintf("printed as %q, which is rejected: %v", trunc(s1, 300), err)))
		return
	}
	sel, ok := back.(*influxql.SelectStatement)
	if !ok || len(sel.Sources) != 1 {
		r.Violation("multi-part-source-wrong", det("printed text reads back as another kind of statement: "+trunc(s1, 300)))
		return
	}
	if bm, ok := sel.Sources[0].(*influxql.Measurement); !ok || bm.Database != parts[0] || bm.RetentionPolicy != parts[1] || bm.Name != parts[2] || sel.Target == nil || sel.Target.Measurement.Database != parts[0] || sel.Target.Measurement.RetentionPolicy != parts[1] || sel.Target.Measurement.Name != parts[2] {
		r.Violation("multi-part-source-wrong", det("printed as "+trunc(s1, 300)+", which reads back with other names"))
		return
	}
	local["multi.built-with-shared-node"]++
}

var c06alphabet = []string{"'", `"`, `\`, "n", "\n", "\r", "\x00", " ", ".", "/", "*", "-", ";", "$", "a", "1", "_", "é", "\xff"}

func checkC06(c *Ctx) (string, bool, []string) {
	r := c.R
	rule := "names that differ from an ASCII name only by a letter whose case-folded form is ASCII (KELVIN SIGN, LONG S, dotted / dotless I), classified in both orders before anything else; every Unicode scalar value as a one-rune string and embedded as a<r>b through QuoteString/QuoteIdent/IdentNeedsQuotes vs the scanner; all strings of length <=3 (<=4 thorough) over a 19-symbol hostile alphabet through helpers and 14 statement slots; all keywords in 3 casings; multi-part names; random strings to length 64; values of 14 to 8194 characters and of 64 KB, 1 MB and 2 MB at and around powers of two (bare-identifier characters only, with one hostile character, runs of quotes, backslashes and multi-byte characters). Non-trivial = string needs escaping or quoting, or is inexpressible; distinct by (slot, string)."
	assume := []string{"expressible = valid UTF-8 without NUL or CR", "for inexpressible values a parse error or any single literal in the slot is acceptable"}
	if c.Replay != nil {
		local := map[string]int64{}
		switch replayStr(c, "sub") {
		case "helpers":
			c06Helpers(c, hexOrInput(c), local)
		case "template":
			for _, sl := range c06slots {
				if sl.name == replayStr(c, "slot") {
					c06Template(c, sl, hexOrValue(c), local)
				}
			}
		case "multi":
			if ps, ok := c.Replay["parts"].([]interface{}); ok && len(ps) == 3 {
				c06Multi(c, [3]string{ps[0].(string), ps[1].(string), ps[2].(string)}, local)
			}
		}
		return rule, false, assume
	}
	// the helpers as the very first calls of a process (a program that only
	// builds queries): probed in processes of their own
	envProbe(c, "env-first-helper", "QuoteIdent-not-inverse")
	// 0a. a plain name and a name that needs quoting with the same length and
	// the same 32-bit checksum, the plain one first (and for a second pair the
	// other way round): the answer for one must not be the answer kept for the
	// other
	{
		local := map[string]int64{}
		const al = "abcdefghijklmnopqrstuvwxyz0123456789_"
		for ki, kind := range mon.SumKinds {
			for order := 0; order < 2; order++ {
				sd := uint64(c.Seed) + uint64(ki*2+order)
				plain, hostile, ok := mon.CollideAB(kind,
					func(i int) string { return "n" + mon.Word(sd, i, 9, al) },
					func(i int) string { return mon.Word(sd+100, i, 4, al) + "; --" + mon.Word(sd+200, i, 2, al) },
					1<<20)
				if !ok {
					local["same-checksum.no-pair-found"]++
					continue
				}
				seq := []string{plain, hostile, plain}
				if order == 1 {
					seq = []string{hostile, plain, hostile}
				}
				for _, s := range seq {
					c06Helpers(c, s, local)
					for _, sl := range c06slots {
						if sl.ident {
							c06Template(c, sl, s, local)
						}
					}
				}
				local["same-checksum.name-pairs"]++
			}
		}
		r.MergeCounts(local)
	}
	// 0. look-alikes under case folding, in both call orders and before anything
	// else has been classified in this process: a non-ASCII letter whose upper-
	// or lower-case form is an ASCII letter (KELVIN SIGN, LONG S, dotted and
	// dotless I) next to the ASCII spelling of the same name
	{
		local := map[string]int64{}
		for cp := rune(0x80); cp <= 0x1FFFF; cp++ {
			var eq []string
			for _, t := range []string{strings.ToLower(string(cp)), strings.ToUpper(string(cp)), string(unicode.SimpleFold(cp)), string(unicode.SimpleFold(unicode.SimpleFold(cp)))} {
				if len(t) == 1 && (t[0] >= 'a' && t[0] <= 'z' || t[0] >= 'A' && t[0] <= 'Z') {
					eq = append(eq, t, strings.ToLower(t), strings.ToUpper(t))
				}
			}
			for i, e := range eq {
				r := string(cp)
				for _, ord := range [][2]string{{e, r}, {r, e}} {
					pre := fmt.Sprintf("q%d%c", i, 'a'+len(local)%26)
					if ord[0] == r {
						pre = "r" + pre
					}
					for _, v := range ord {
						c06Helpers(c, pre+v+"z", local)
						c06Helpers(c, pre+v, local)
						c06Template(c, c06slots[int(cp)%len(c06slots)], pre+v+"z", local)
					}
				}
				local["case-fold-look-alikes"]++
			}
		}
		r.MergeCounts(local)
	}
	// 1. every Unicode scalar
	const chunk = 4096
	nchunks := (0x110000 + chunk - 1) / chunk
	mon.Parallel(nchunks, c.Workers, func(ci int) {
		local := map[string]int64{}
		for cp := ci * chunk; cp < (ci+1)*chunk && cp < 0x110000; cp++ {
			if cp >= 0xD800 && cp <= 0xDFFF {
				continue
			}
			s := string(rune(cp))
			c06Helpers(c, s, local)
			c06Helpers(c, "a"+s+"b", local)
			if cp < 0x3000 || cp%257 == 0 {
				sl := c06slots[cp%len(c06slots)]
				c06Template(c, sl, "a"+s+"b", local)
				r.Distinct(uint64(cp)<<8 | uint64(cp%len(c06slots)))
			}
		}
		r.MergeCounts(local)
	})
	r.Count("scalars.enumerated", 0x110000-0x800)
	// 2. alphabet strings
	maxLen := c.N(3, 4)
	var strs []string
	var rec func(prefix string, l int)
	rec = func(prefix string, l int) {
		if l > 0 {
			strs = append(strs, prefix)
		}
		if l == maxLen {
			return
		}
		for _, a := range c06alphabet {
			rec(prefix+a, l+1)
		}
	}
	rec("", 0)
	strs = append(strs, "")
	mon.Parallel(len(strs), c.Workers, func(i int) {
		local := map[string]int64{}
		s := strs[i]
		c06Helpers(c, s, local)
		for si, sl := range c06slots {
			if len(s) <= 3 || (i+si)%5 == 0 {
				c06Template(c, sl, s, local)
				r.DistinctStr(sl.name + "|" + s)
			}
		}
		if i%977 == 5 {
			r.Sample(map[string]string{"value_hex": fmt.Sprintf("%x", s), "QuoteString": influxql.QuoteString(s), "QuoteIdent": influxql.QuoteIdent(s)})
		}
		r.MergeCounts(local)
	})
	r.Count("alphabet.strings", int64(len(strs)))
	// 3. keywords in three casings
	var kws []string
	for t := influxql.Token(0); t < 200; t++ {
		n := t.String()
		if n == "" || influxql.Lookup(n) == influxql.IDENT {
			continue
		}
		kws = append(kws, strings.ToLower(n), strings.ToUpper(n), strings.ToUpper(n[:1])+strings.ToLower(n[1:]))
	}
	kws = append(kws, "true", "TRUE", "True", "false", "FALSE", "False", "and", "AND", "And", "or", "OR", "Or", "tRuE", "sElEcT")
	for _, k := range kws {
		local := map[string]int64{}
		c06Helpers(c, k, local)
		for _, sl := range c06slots {
			if sl.ident {
				c06Template(c, sl, k, local)
				r.DistinctStr(sl.name + "|" + k)
			}
		}
		local["keywords"]++
		r.MergeCounts(local)
	}
	// 4. multi-part names
	partPool := []string{"db", "", "my db", "a.b", "a.b.c.d", "10.0.0.1", "..", `q"t`, `b\s`, "nl\nx", "1st", "é", "select", "Time", "x'y", "/re/", ":m", "$p"}
	var triples [][3]string
	for _, a := range partPool {
		for _, b := range partPool {
			for _, d := range partPool {
				triples = append(triples, [3]string{a, b, d})
			}
		}
	}
	mon.Parallel(len(triples), c.Workers, func(i int) {
		local := map[string]int64{}
		c06Multi(c, triples[i], local)
		r.DistinctStr("multi|" + strings.Join(triples[i][:], "\x00"))
		r.MergeCounts(local)
	})
	// 5. random strings
	nrand := c.N(50000, 2000000)
	mon.Parallel(nrand, c.Workers, func(i int) {
		rg := mon.NewRng(c.Seed, "c06.rand", i)
		local := map[string]int64{}
		n := rg.Range(1, 64)
		var b strings.Builder
		for j := 0; j < n; j++ {
			switch rg.Intn(6) {
			case 0, 1:
				b.WriteString(c06alphabet[rg.Intn(len(c06alphabet))])
			case 2:
				b.WriteRune(rune(rg.Intn(0x250)))
			case 3:
				b.WriteRune(rune(0x4e00 + rg.Intn(2000)))
			case 4:
				b.WriteByte(byte(rg.Intn(256)))
			default:
				b.WriteByte("abcXYZ_019"[rg.Intn(10)])
			}
		}
		s := b.String()
		c06Helpers(c, s, local)
		sl := c06slots[rg.Intn(len(c06slots))]
		c06Template(c, sl, s, local)
		r.DistinctStr(sl.name + "|" + s)
		if rg.P(0.1) {
			c06Multi(c, [3]string{s, c06alphabet[rg.Intn(len(c06alphabet))], "m" + s}, local)
		}
		r.MergeCounts(local)
	})
	// 6. long values at and around the sizes where buffers are usually cut
	var longs []string
	for _, base := range []int{16, 32, 64, 128, 256, 512, 1024, 4096, 8192} {
		for d := -2; d <= 2; d++ {
			n := base + d
			rg := mon.NewRng(c.Seed, "c06.long", n)
			var bare, mixed strings.Builder
			for j := 0; j < n; j++ {
				ch := "abcdefghijklmnopqrstuvwxyzABCXYZ_0123456789"[rg.Intn(43)]
				if j == 0 {
					ch = "abcXYZ_"[rg.Intn(7)]
				}
				bare.WriteByte(ch)
				mixed.WriteByte(ch)
			}
			longs = append(longs, bare.String())
			m := mixed.String()
			k := rg.Intn(n)
			longs = append(longs, m[:k]+c06alphabet[rg.Intn(len(c06alphabet))]+m[k+1:], strings.Repeat("é", n), strings.Repeat("'", n), strings.Repeat(`"`, n), strings.Repeat(`\`, n))
		}
	}
	// beyond a megabyte (a size at which hardening limits are typically set):
	// the value, a quote inside it, and statement text behind it
	for _, n := range []int{65535, 65536, 1<<20 - 1, 1 << 20, 1<<20 + 1, 1<<21 + 3} {
		longs = append(longs, strings.Repeat("m", n)+` OR 1 = 1 --`, strings.Repeat("a", n)+`' OR '1' = '1`, strings.Repeat("q", n)+`" WHERE time > 0 --`)
	}
	mon.Parallel(len(longs), c.Workers, func(i int) {
		local := map[string]int64{}
		s := longs[i]
		c06Helpers(c, s, local)
		for _, sl := range c06slots {
			c06Template(c, sl, s, local)
		}
		c06Multi(c, [3]string{s, "", s}, local)
		r.DistinctStr("long|" + s)
		local["long-values"]++
		r.MergeCounts(local)
	})
	for _, sl := range c06slots {
		r.Require(r.Counter("template."+sl.name) > 0, "slot "+sl.name+" never exercised")
	}
	r.Require(r.Counter("helpers.bare-ok") > 0 && r.Counter("template.ok") > 0 && r.Counter("multi.ok") > 0, "no positive observation")
	return rule, false, assume
}

func hexOrInput(c *Ctx) string {
	if h := replayStr(c, "hex"); h != "" || replayStr(c, "input") == "" {
		var b []byte
		fmt.Sscanf(h, "%x", &b)
		return string(b)
	}
	return replayStr(c, "input")
}

func hexOrValue(c *Ctx) string { return hexOrInput(c) }
