package checks

import (
	"fmt"
	"strings"

	"github.com/influxdata/influxql"
	"verifharness/astx"
	"verifharness/mon"
)

// parseQuery1 parses text with ParseQuery under a recover wrapper and insists
// on exactly one statement.
func parseQuery1(text string) (st influxql.Statement, err error, panicked bool, pv interface{}, stack string) {
	panicked, pv, stack = mon.Try(func() {
		var q *influxql.Query
		q, err = influxql.ParseQuery(text)
		if err == nil {
			if q == nil {
				err = fmt.Errorf("harness: ParseQuery returned (nil, nil)")
			} else if len(q.Statements) != 1 {
				err = fmt.Errorf("harness: ParseQuery returned %d statements, want 1", len(q.Statements))
			} else {
				st = q.Statements[0]
			}
		}
	})
	return
}

// replayStr fetches a string field of the replay case.
func replayStr(c *Ctx, key string) string {
	if c.Replay == nil {
		return ""
	}
	s, _ := c.Replay[key].(string)
	return s
}

func replayInt(c *Ctx, key string) int {
	if c.Replay == nil {
		return 0
	}
	f, _ := c.Replay[key].(float64)
	return int(f)
}

func trunc(s string, n int) string {
	if len(s) > n {
		return s[:n] + "…"
	}
	return s
}

func dumpOf(v interface{}) string { return astx.Dump(v) }

var _ = strings.TrimSpace
