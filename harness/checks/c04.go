package checks

import (
	"bytes"
	"encoding/binary"
	"encoding/json"
	"fmt"
	"math"
	"os"
	"os/exec"
	"path/filepath"
	"reflect"
	"runtime"
	"sort"
	"strconv"
	"strings"
	"sync"
	"time"
	"unicode/utf8"

	"github.com/influxdata/influxql"
	"verifharness/gen"
	"verifharness/mon"
)

// C04 — parsing is total: any input yields an AST or an error, never a crash
// or hang.
//
// Monitors: recover() at the call boundary; journal + child exit status for
// process-fatal events; the verif hook assertions on the scanner's push-back
// rings; a logical-time step budget (scanner steps per input rune) that turns
// hangs and super-linear re-scanning into deterministic failures; a generous
// wall-clock watchdog per child whose firing is inconclusive, not a verdict.

func init() {
	Registry["C04"] = checkC04
	workerKinds["c04"] = c04Worker
}

// Budget: steps allowed = c04K*(runes+1) + c04C for scanFunc calls and for
// rune reads, each. The observed maximum ratio is reported in the evidence;
// the run is inconclusive if the margin to the budget falls below 8x.
const (
	c04K = 40
	c04C = 4096
)

var c04Hostile = []string{"$", `$"`, "'", `"`, "/", "/*", "--", `\`, "\x00", "\xff\xfe", "\r", "::", ".", "..", "(", ")", ",", ";", "=~", "!~", "$p", `$"p q"`, "*/", "é", "\xc3", "-", "+", "<>", "!", "::tag", "fill(", "tz(", "now()", "time(", "/re/", "AS", "DISTINCT", "INTO", ":MEASUREMENT", "0x", "1e9", "9223372036854775808", "18446744073709551616", "99999999999999999999h", "\n", "\t", "\\'", "\\\"", "\\n", "''", `""`, "//", "/**/"}

// mutate applies 1-4 byte/lexeme level mutations.
func mutateText(rg *mon.Rng, a, b string) string {
	s := a
	n := rg.Range(1, 4)
	for i := 0; i < n; i++ {
		if len(s) == 0 {
			s = b
		}
		switch rg.Intn(9) {
		case 0: // delete a range
			x := rg.Intn(len(s))
			y := x + rg.Intn(len(s)-x)
			if rg.P(0.7) && y-x > 6 {
				y = x + rg.Intn(6)
			}
			s = s[:x] + s[y:]
		case 1: // duplicate a range
			x := rg.Intn(len(s))
			y := x + rg.Intn(minInt(len(s)-x, 30)+1)
			s = s[:y] + s[x:y] + s[y:]
		case 2: // splice with another text
			x := rg.Intn(len(s) + 1)
			if len(b) > 0 {
				y := rg.Intn(len(b))
				s = s[:x] + b[y:]
			}
		case 3, 4: // insert a hostile fragment
			x := rg.Intn(len(s) + 1)
			s = s[:x] + c04Hostile[rg.Intn(len(c04Hostile))] + s[x:]
		case 5: // truncate
			s = s[:rg.Intn(len(s)+1)]
		case 6: // overwrite a byte
			x := rg.Intn(len(s))
			s = s[:x] + string([]byte{byte(rg.Intn(256))}) + s[x+1:]
		case 7: // swap two whitespace-separated words
			w := strings.Fields(s)
			if len(w) > 2 {
				i, j := rg.Intn(len(w)), rg.Intn(len(w))
				w[i], w[j] = w[j], w[i]
				s = strings.Join(w, " ")
			}
		default: // replace a word with a placeholder
			w := strings.Fields(s)
			if len(w) > 0 {
				w[rg.Intn(len(w))] = rg.Pick("$p", "$q", "$missing", `$"p q"`, "$", "$1", "$str", "$re", "$id", "$dur", "$num", "$int", "$bool", "$bad")
				s = strings.Join(w, " ")
			}
		}
	}
	return s
}

func minInt(a, b int) int {
	if a < b {
		return a
	}
	return b
}

// c04Params builds a parameter map with every bindable kind (right and wrong).
func c04Vals() []interface{} {
	return []interface{}{
		map[string]interface{}{"duration": "1\xc2"}, map[string]interface{}{"duration": "1h2\xc2"}, map[string]interface{}{"duration": "\xc2"}, map[string]interface{}{"duration": "1\xb5"}, map[string]interface{}{"duration": "5\xc2\xb5"},
		map[string]interface{}{"duration": "1\xff"}, map[string]interface{}{"duration": "99999999999999999999999h"}, map[string]interface{}{"duration": "1h\x00"}, map[string]interface{}{"duration": ""}, map[string]interface{}{"duration": "-"},
		map[string]interface{}{"duration": "7"}, map[string]interface{}{"duration": "h"}, map[string]interface{}{"duration": "1hh"}, map[string]interface{}{"duration": "\uff11s"}, map[string]interface{}{"duration": "1 s"}, map[string]interface{}{"duration": "1µ"},
		map[string]interface{}{"duration": "1\xe2\x82"}, map[string]interface{}{"duration": "1m\xf0\x9f"}, map[string]interface{}{"duration": "--1s"}, map[string]interface{}{"duration": "+1s"}, map[string]interface{}{"duration": "1e3s"},
		map[string]interface{}{"identifier": "a\xff"}, map[string]interface{}{"identifier": ""}, map[string]interface{}{"identifier": "\x00"}, map[string]interface{}{"string": "\xc2"}, map[string]interface{}{"regex": "\xff("}, map[string]interface{}{"regex": ""},
		map[string]interface{}{"regex": "a{1001}"}, map[string]interface{}{"regex": "(?P<n>"}, "\xc2", "\xe2\x82", 9223372036854775808.0, -9223372036854775808.0, 18446744073709551616.0, 5e-324, json.Number("-0"), json.Number("0x10"), json.Number("1_000"),
		json.Number("18446744073709551616"), json.Number("-9223372036854775809"), json.Number(" 1"), json.Number("1."), json.Number(".5"), json.Number("+5"),

		"str", "it's; DROP DATABASE x --", "select", "", "a\nb", "\x00",
		1.5, math.NaN(), math.Inf(1), math.Inf(-1), 1e300, -0.0,
		int64(7), int64(math.MaxInt64), int64(math.MinInt64), int64(0),
		true, false,
		json.Number("12"), json.Number("1.5"), json.Number("1e400"), json.Number("9223372036854775808"), json.Number("abc"), json.Number(""),
		map[string]interface{}{"identifier": "host"}, map[string]interface{}{"ident": "select"}, map[string]interface{}{"identifier": "a.b\"c"}, map[string]interface{}{"identifier": 5.0},
		map[string]interface{}{"regex": "^a.*$"}, map[string]interface{}{"regex": "(["}, map[string]interface{}{"regex": "a/b"}, map[string]interface{}{"regex": 1.0},
		map[string]interface{}{"string": "x'y"}, map[string]interface{}{"string": true},
		map[string]interface{}{"float": 2.5}, map[string]interface{}{"number": int64(3)}, map[string]interface{}{"float": "x"}, map[string]interface{}{"number": math.NaN()},
		map[string]interface{}{"int": int64(-5)}, map[string]interface{}{"integer": 2.5}, map[string]interface{}{"integer": json.Number("5")},
		map[string]interface{}{"duration": "10s"}, map[string]interface{}{"duration": "10x"}, map[string]interface{}{"duration": "-5m"}, map[string]interface{}{"duration": int64(90000000000)}, map[string]interface{}{"duration": int64(math.MinInt64)}, map[string]interface{}{"duration": 1.5},
		map[string]interface{}{}, map[string]interface{}{"string": "a", "int": int64(1)}, map[string]interface{}{"unknown": "x"},
		[]interface{}{1}, nil, int32(5), uint64(7), struct{}{}, []byte("x"), time.Second,
	}
}

func c04Params(rg *mon.Rng) map[string]interface{} {
	vals := c04Vals()
	names := []string{"p", "q", "p q", "1", "str", "re", "id", "dur", "num", "int", "bool", "bad", ""}
	m := map[string]interface{}{}
	for _, n := range names {
		if rg.P(0.7) {
			m[n] = vals[rg.Intn(len(vals))]
		}
	}
	// typed names get plausible kinds most of the time
	if rg.P(0.7) {
		m["str"], m["re"], m["id"] = "x", map[string]interface{}{"regex": "^a"}, map[string]interface{}{"identifier": "host"}
		m["dur"], m["num"], m["int"], m["bool"] = map[string]interface{}{"duration": "10s"}, 2.5, int64(3), true
	}
	return m
}

func typedNil(v interface{}) bool {
	if v == nil {
		return true
	}
	rv := reflect.ValueOf(v)
	return rv.Kind() == reflect.Ptr && rv.IsNil()
}

type c04viol struct {
	Kind   string                 `json:"kind"`
	Detail map[string]interface{} `json:"detail"`
}

type c04result struct {
	Counters   map[string]int64 `json:"counters"`
	Violations []c04viol        `json:"violations"`
	NViol      int64            `json:"nviol"`
	MaxScanPer float64          `json:"max_scan_per_rune"`
	MaxReadPer float64          `json:"max_read_per_rune"`
	MaxTokPB   int              `json:"max_token_pushback"`
	MaxRunePB  int              `json:"max_rune_pushback"`
	Done       bool             `json:"done"`
	Samples    []string         `json:"samples"`
}

// c04Exercise runs the three entry points on one input.
func c04Exercise(text string, params map[string]interface{}, res *c04result, idx int, label string) {
	runes := utf8.RuneCountInString(text)
	budget := int64(c04K)*int64(runes+1) + c04C
	report := func(kind, entry, why, stack string) {
		res.NViol++
		if len(res.Violations) < 40 {
			d := map[string]interface{}{"label": label, "idx": idx, "entry": entry, "why": why, "len": len(text)}
			if len(text) <= 4096 {
				d["input"] = text
				d["hex"] = fmt.Sprintf("%x", text)
			} else {
				d["input"] = text[:200] + "…(" + strconv.Itoa(len(text)) + " bytes)"
			}
			if stack != "" {
				d["stack"] = stack
			}
			if params != nil {
				d["params"] = fmt.Sprintf("%#v", params)
			}
			res.Violations = append(res.Violations, c04viol{kind, d})
		}
	}
	for _, entry := range []string{"ParseQuery", "ParseStatement", "ParseExpr"} {
		p := influxql.NewParser(strings.NewReader(text))
		influxql.VerifSetBudget(p, budget)
		var out interface{}
		var err error
		pan, pv, stk := mon.Try(func() {
			if params != nil {
				p.SetParams(params)
			}
			switch entry {
			case "ParseQuery":
				q, e := p.ParseQuery()
				out, err = q, e
				if q == nil {
					out = nil
				}
			case "ParseStatement":
				s, e := p.ParseStatement()
				out, err = s, e
			default:
				x, e := p.ParseExpr()
				out, err = x, e
			}
		})
		res.Counters["calls."+entry]++
		st := influxql.VerifParserStats(p)
		if r := float64(st.ScanCalls) / float64(runes+1); r > res.MaxScanPer {
			res.MaxScanPer = r
		}
		if r := float64(st.ReadCalls) / float64(runes+1); r > res.MaxReadPer {
			res.MaxReadPer = r
		}
		if st.MaxTokPushback > res.MaxTokPB {
			res.MaxTokPB = st.MaxTokPushback
		}
		if st.MaxRunePushback > res.MaxRunePB {
			res.MaxRunePB = st.MaxRunePushback
		}
		if pan {
			switch v := pv.(type) {
			case influxql.VerifBudgetExceeded:
				report("step-budget-exceeded", entry, fmt.Sprintf("%v on %d runes (budget %d*(runes+1)+%d): non-terminating or super-linear scanning", v, runes, c04K, c04C), stk)
			case influxql.VerifHookViolation:
				report("pushback-hook-assertion", entry, v.Error(), stk)
			default:
				report("panic", entry, fmt.Sprint(pv), stk)
			}
			continue
		}
		if err == nil && typedNil(out) {
			report("nil-result-with-nil-error", entry, "returned neither a result nor an error", "")
			continue
		}
		if err != nil {
			res.Counters["outcome.error"]++
			if pan2, pv2, stk2 := mon.Try(func() { _ = err.Error() }); pan2 {
				report("panic-in-error-text", entry, fmt.Sprint(pv2), stk2)
			}
			continue
		}
		res.Counters["outcome.accepted"]++
		// A returned result can be printed and traversed without panicking.
		if n, ok := out.(influxql.Node); ok && len(text) <= 64*1024 {
			if pan2, pv2, stk2 := mon.Try(func() {
				_ = n.String()
				influxql.WalkFunc(n, func(influxql.Node) {})
				_ = influxql.Rewrite(identityRewriter{}, n)
				if st, ok := n.(influxql.Statement); ok {
					_, _ = st.RequiredPrivileges()
				}
			}); pan2 {
				report("panic-using-returned-result", entry, fmt.Sprint(pv2), stk2)
			}
			res.Counters["results-printed-and-walked"]++
		}
	}
}

// c04FailureTexts lists the texts a parse failure carries.
func c04FailureTexts(err error) []string {
	out := []string{err.Error()}
	if pe, ok := err.(*influxql.ParseError); ok {
		out = append(out, pe.Found, pe.Message, strings.TrimPrefix(pe.Found, "$"))
	}
	var res []string
	for _, s := range out {
		if s != "" {
			res = append(res, s)
		}
	}
	return res
}

// c04Case builds input number idx of a label.
func c04Case(seed int64, label string, idx int) (string, map[string]interface{}) {
	rg := mon.NewRng(seed, label, idx)
	switch label {
	case "mut":
		a := genCase(seed, "c04.base", idx, -1, -1, gen.Opts{Odd: idx%3 == 0, Hostile: idx%4 == 0, MaxDepth: 2}, "random").Text
		b := genCase(seed, "c04.base", idx+7919, -1, -1, gen.Opts{MaxDepth: 2}, "random").Text
		text := mutateText(rg, a, b)
		var params map[string]interface{}
		if rg.P(0.25) || strings.Contains(text, "$") {
			params = c04Params(rg)
		}
		return text, params
	case "tmpl":
		// a generated statement whose name / literal tokens are placeholders:
		// every bindable and unbindable value lands where the grammar reads a
		// name, a string, a regex, a count, a number or a duration
		gc := genCase(seed, "c04.tmpl", idx, -1, -1, gen.Opts{Odd: idx%3 == 0, MaxDepth: 2}, "spaced")
		toks := append([]gen.Tok(nil), gc.G.B.Toks...)
		vals := c04Vals()
		params := map[string]interface{}{}
		k := 0
		for i := range toks {
			if slotKind(toks[i]) != "" && rg.P(0.35) {
				name := fmt.Sprintf("p%d", k)
				k++
				toks[i].Text = "$" + name
				if rg.P(0.9) {
					params[name] = vals[rg.Intn(len(vals))]
				}
			}
		}
		text, _ := gen.Render(toks, gen.Layout{Spaced: true})
		return text, params
	case "bytes":
		n := rg.Intn(200)
		bs := make([]byte, n)
		for i := range bs {
			if rg.P(0.5) {
				bs[i] = " \t\n'\"/\\$.,;:()*-+=<>!~%&|^0123456789abcXYZ_éµ"[rg.Intn(47)]
			} else {
				bs[i] = byte(rg.Intn(256))
			}
		}
		return string(bs), nil
	case "soup":
		var sb strings.Builder
		n := rg.Intn(60)
		kws := gen.Keywords
		for i := 0; i < n; i++ {
			switch rg.Intn(5) {
			case 0, 1:
				sb.WriteString(kws[rg.Intn(len(kws))])
			case 2:
				sb.WriteString(c04Hostile[rg.Intn(len(c04Hostile))])
			case 3:
				sb.WriteString(rg.Pick("x", "1", "1.5", "10s", "'s'", `"q"`, "/re/", "(", ")", ",", "*", "=", "AND"))
			default:
				sb.WriteString(rg.Pick("$p", "$str", "$re", "$id", "$dur", "$num"))
			}
			sb.WriteString(rg.Pick(" ", "", " ", "\n"))
		}
		var params map[string]interface{}
		if rg.Bool() {
			params = c04Params(rg)
		}
		return sb.String(), params
	}
	return "", nil
}

// c04Stress lists the structured stress inputs (deep nesting, long chains,
// huge tokens, unterminated everything).
func c04Stress(thorough bool) []string {
	var out []string
	depths := []int{10, 100, 1000, 10000}
	if thorough {
		depths = append(depths, 100000)
	}
	for _, d := range depths {
		out = append(out,
			strings.Repeat("(", d)+"x"+strings.Repeat(")", d),
			strings.Repeat("(", d),
			"SELECT "+strings.Repeat("f(", d)+"x"+strings.Repeat(")", d)+" FROM m",
			"SELECT "+strings.Repeat("-(", d)+"x"+strings.Repeat(")", d)+" FROM m",
			"SELECT x FROM "+strings.Repeat("(SELECT x FROM ", minInt(d, 20000))+"m"+strings.Repeat(")", minInt(d, 20000)),
			"SELECT x FROM m WHERE "+strings.Repeat("a = 1 AND ", d)+"b = 2",
			"SELECT x FROM m WHERE "+strings.Repeat("a + ", d)+"1 > 0",
			"SELECT x FROM m WHERE a"+strings.Repeat(" = a", d),
			"SELECT "+strings.Repeat("x, ", d)+"y FROM m",
			"SELECT x FROM "+strings.Repeat("m, ", d)+"m",
			strings.Repeat(";", d)+"SHOW DATABASES"+strings.Repeat(";", d),
			strings.Repeat("SHOW DATABASES;", minInt(d, 20000)),
			"SELECT x FROM m GROUP BY "+strings.Repeat("t, ", d)+"t",
			"SELECT x FROM a"+strings.Repeat(".b", d),
			"SELECT "+strings.Repeat("- ", d)+"1 FROM m",
			"SELECT f("+strings.Repeat("1,", d)+"1) FROM m",
			"SHOW TAG KEYS WITH KEY IN ("+strings.Repeat("k,", d)+"k)",
			"SELECT x"+strings.Repeat("::float", d)+" FROM m",
		)
	}
	big := 1 << 20
	if !thorough {
		big = 1 << 17
	}
	out = append(out,
		"/*"+strings.Repeat("c", big), "/*"+strings.Repeat("*", big), "--"+strings.Repeat("c", big), "'"+strings.Repeat("s", big), "'"+strings.Repeat(`\'`, big/2),
		`"`+strings.Repeat("i", big), strings.Repeat("9", big), strings.Repeat("9", big)+"h", "SELECT "+strings.Repeat("a", big)+" FROM m", "/"+strings.Repeat("r", big),
		"SELECT x FROM m WHERE y =~ /"+strings.Repeat("(", 1000)+"/", "SELECT x FROM m WHERE y =~ /"+strings.Repeat("a", big)+"/",
		strings.Repeat(" ", big), strings.Repeat("\r\n", big/2), strings.Repeat("\xff", 4096), strings.Repeat("$", 4096), strings.Repeat(`$"`, 4096), strings.Repeat("::", 4096), strings.Repeat(".", 4096),
		"SELECT x FROM m WHERE y = '"+strings.Repeat("z", big)+"'", strings.Repeat("é", big/2), "SELECT "+strings.Repeat("1.", 4096)+" FROM m",
	)
	return out
}

// c04Fatal lists inputs known to kill the process (open known findings);
// they run in a child of their own.
func c04Fatal() []string {
	return []string{strings.Repeat("(", 2000000)}
}

func c04Worker(args []string) int {
	// args: seed tier shard nshards outfile journal hashfile
	seed, _ := strconv.ParseInt(args[0], 10, 64)
	tier := args[1]
	shard, _ := strconv.Atoi(args[2])
	nsh, _ := strconv.Atoi(args[3])
	out, jpath, hpath := args[4], args[5], args[6]
	jf, err := os.OpenFile(jpath, os.O_CREATE|os.O_WRONLY|os.O_TRUNC, 0o644)
	if err != nil {
		return 3
	}
	hf, _ := os.Create(hpath)
	defer hf.Close()
	res := &c04result{Counters: map[string]int64{}}
	journal := func(label string, idx int) {
		b := []byte(fmt.Sprintf("%-8s %12d\n", label, idx))
		_, _ = jf.WriteAt(b, 0)
	}
	thorough := tier == "thorough"
	counts := map[string]int{"mut": 200000, "bytes": 50000, "soup": 50000, "tmpl": 60000}
	if thorough {
		counts = map[string]int{"mut": 7000000, "bytes": 1500000, "soup": 1500000, "tmpl": 2000000}
	}
	var hbuf []byte
	for _, label := range []string{"mut", "bytes", "soup", "tmpl"} {
		if shard < 0 {
			break // the dedicated stress worker
		}
		for idx := shard; idx < counts[label]; idx += nsh {
			text, params := c04Case(seed, label, idx)
			journal(label, idx)
			c04Exercise(text, params, res, idx, label)
			if label == "tmpl" && len(params) > 0 {
				// the same template again with the map also binding, as names, the
				// texts its failures carry (a failed placeholder's diagnostic must
				// never be looked up as a name)
				more := map[string]interface{}{}
				for k, v := range params {
					more[k] = v
				}
				p := influxql.NewParser(strings.NewReader(text))
				p.SetParams(params)
				var perr error
				mon.Try(func() { _, perr = p.ParseQuery() })
				if perr != nil {
					vals := c04Vals()
					for _, cnd := range c04FailureTexts(perr) {
						if _, taken := more[cnd]; !taken {
							more[cnd] = vals[(idx+len(cnd))%len(vals)]
						}
					}
					for _, v := range params {
						// and the diagnostics of every value that cannot be bound
						more[fmt.Sprintf("unable to bind parameter with type %T", v)] = int64(1)
					}
					c04Exercise(text, more, res, idx, label)
					res.Counters["inputs.tmpl-with-failure-texts-as-names"]++
				}
			}
			res.Counters["inputs."+label]++
			if params != nil {
				res.Counters["inputs.with-params"]++
			}
			var h [8]byte
			binary.LittleEndian.PutUint64(h[:], mon.Hash64(text))
			hbuf = append(hbuf, h[:]...)
			if len(hbuf) > 1<<16 {
				hf.Write(hbuf)
				hbuf = hbuf[:0]
			}
			if idx < 3*nsh && len(res.Samples) < 2 && len(text) < 300 {
				res.Samples = append(res.Samples, text)
			}
		}
	}
	hf.Write(hbuf)
	if shard == -3 {
		// independent parsers on 8 goroutines: totality must not depend on what
		// other parsers in the process are doing (a crash here is process-fatal
		// and is attributed to the journalled batch)
		n := 24000
		if thorough {
			n = 400000
		}
		const G = 8
		parts := make([]*c04result, G)
		var wg sync.WaitGroup
		journal("conc", 0)
		for g := 0; g < G; g++ {
			parts[g] = &c04result{Counters: map[string]int64{}}
			wg.Add(1)
			go func(g int) {
				defer wg.Done()
				for idx := g; idx < n; idx += G {
					text, params := c04Case(seed, "mut", idx)
					c04Exercise(text, params, parts[g], idx, "mut")
					parts[g].Counters["inputs.concurrent"]++
					// and a well-formed statement whose every lexeme is new to the
					// process, so anything memoised per name, pattern or literal is
					// being filled in by all goroutines at once
					fresh := fmt.Sprintf("SELECT f%d, mean(\"g %d\") FROM db%d.rp%d./^m%d.*/ WHERE h%d =~ /^(a|b)%d$/ AND s != 's%d' AND time > now() - %dns GROUP BY time(%dms), /t%d/ TZ('UTC')", idx, idx, idx, idx, idx, idx, idx, idx, idx+1, idx+1, idx)
					c04Exercise(fresh, nil, parts[g], idx, "fresh")
					parts[g].Counters["inputs.concurrent-fresh"]++
				}
			}(g)
		}
		wg.Wait()
		for _, pr := range parts {
			for k, v := range pr.Counters {
				res.Counters[k] += v
			}
			res.NViol += pr.NViol
			res.Violations = append(res.Violations, pr.Violations...)
			if pr.MaxScanPer > res.MaxScanPer {
				res.MaxScanPer = pr.MaxScanPer
			}
			if pr.MaxReadPer > res.MaxReadPer {
				res.MaxReadPer = pr.MaxReadPer
			}
			if pr.MaxTokPB > res.MaxTokPB {
				res.MaxTokPB = pr.MaxTokPB
			}
			if pr.MaxRunePB > res.MaxRunePB {
				res.MaxRunePB = pr.MaxRunePB
			}
		}
	}
	if shard == -2 {
		for i, text := range c04Fatal() {
			journal("fatal", i)
			c04Exercise(text, nil, res, i, "fatal")
			res.Counters["inputs.fatal-witness-survived"]++
		}
	}
	if shard == -1 {
		for i, text := range c04Stress(thorough) {
			journal("stress", i)
			c04Exercise(text, nil, res, i, "stress")
			res.Counters["inputs.stress"]++
		}
	}
	res.Done = true
	b, _ := json.Marshal(res)
	if err := os.WriteFile(out, b, 0o644); err != nil {
		return 3
	}
	return 0
}

// c04AllocFamilies: texts whose length is n (up to a constant), one long token
// or one long list per family.
var c04AllocFamilies = []struct {
	name string
	f    func(n int) string
}{
	{"whitespace-run", func(n int) string { return "SELECT a" + strings.Repeat(" ", n) + "FROM m" }},
	{"mixed-blank-run", func(n int) string { return "SELECT a" + strings.Repeat(" \t\r\n", n/4) + "FROM m" }},
	{"leading-blank-run", func(n int) string { return strings.Repeat("\n", n) + "SELECT a FROM m" }},
	{"identifier", func(n int) string { return "SELECT " + strings.Repeat("a", n) + " FROM m" }},
	{"quoted-identifier", func(n int) string { return "SELECT \"" + strings.Repeat("a", n) + "\" FROM m" }},
	{"string", func(n int) string { return "SELECT a FROM m WHERE x = '" + strings.Repeat("a", n) + "'" }},
	{"string-of-escapes", func(n int) string { return "SELECT a FROM m WHERE x = '" + strings.Repeat("\\'", n/2) + "'" }},
	{"unterminated-string", func(n int) string { return "SELECT a FROM m WHERE x = '" + strings.Repeat("a", n) }},
	{"block-comment", func(n int) string { return "SELECT a /*" + strings.Repeat("c*", n/2) + "*/ FROM m" }},
	{"line-comment", func(n int) string { return "SELECT a --" + strings.Repeat("c", n) + "\n FROM m" }},
	{"digits", func(n int) string { return "SELECT " + strings.Repeat("1", n) + " FROM m" }},
	{"duration-components", func(n int) string { return "SELECT a FROM m WHERE x = " + strings.Repeat("1h", n/2) }},
	{"regex", func(n int) string { return "SELECT a FROM m WHERE x =~ /" + strings.Repeat("a", n) + "/" }},
	{"regex-of-escapes", func(n int) string { return "SELECT a FROM m WHERE x =~ /" + strings.Repeat("\\/", n/2) + "/" }},
	{"field-list", func(n int) string { return "SELECT a" + strings.Repeat(",a", n/2) + " FROM m" }},
	{"operator-chain", func(n int) string { return "SELECT a FROM m WHERE a" + strings.Repeat("+a", n/2) }},
	{"and-chain", func(n int) string { return "SELECT a FROM m WHERE a=1" + strings.Repeat(" AND a=1", n/8) }},
	{"statements", func(n int) string { return strings.Repeat("SELECT a FROM m;", n/16) }},
	{"parentheses", func(n int) string {
		return "SELECT " + strings.Repeat("(", n/2) + "a" + strings.Repeat(")", n/2) + " FROM m"
	}},
	{"placeholders", func(n int) string { return "SELECT a FROM m WHERE a = $p" + strings.Repeat(" OR a = $p", n/11) }},
	{"garbage", func(n int) string { return strings.Repeat("\x00\xff$", n/3) }},
}

// c04Alloc: "time proportional to the input length" observed as work that the
// step counters do not see - bytes allocated while parsing a text of length n
// and one of length 4n. Linear work gives a ratio of about 4, quadratic
// copying about 16; the bound is 8 (ratios are only judged above 1 MB, below
// that the cost is dominated by constants). Must run while nothing else does.
func c04Alloc(c *Ctx, only string) {
	r := c.R
	measure := func(q string) uint64 {
		var a, b runtime.MemStats
		runtime.GC()
		runtime.ReadMemStats(&a)
		mon.Try(func() { _, _ = influxql.ParseQuery(q) })
		runtime.ReadMemStats(&b)
		return b.TotalAlloc - a.TotalAlloc
	}
	const n = 32768
	for _, fam := range c04AllocFamilies {
		if only != "" && fam.name != only {
			continue
		}
		a1, a4 := measure(fam.f(n)), measure(fam.f(4*n))
		r.Eval(2)
		r.Count("allocation-probes", 1)
		if a4 > 1<<20 && a4 > 8*a1 {
			r.Violation("work-not-proportional-to-length", map[string]interface{}{"label": "alloc", "family": fam.name, "input": trunc(fam.f(64), 80), "why": fmt.Sprintf("ParseQuery allocates %d bytes for a %s text of %d bytes and %d bytes for one of %d bytes (ratio %.1f; proportional work gives about 4)", a1, fam.name, len(fam.f(n)), a4, len(fam.f(4*n)), float64(a4)/float64(a1))})
			continue
		}
		r.Count("allocation-proportional", 1)
	}
}

var c04Zones = []string{"UTC", "Local", "America/New_York", "America/Chicago", "America/Denver", "America/Los_Angeles", "America/Anchorage", "America/Sao_Paulo", "America/Mexico_City", "America/Toronto", "America/Bogota", "America/Lima", "America/Caracas", "America/Halifax", "America/St_Johns", "America/Phoenix", "America/Havana", "America/Panama", "Europe/London", "Europe/Berlin", "Europe/Paris", "Europe/Madrid", "Europe/Rome", "Europe/Lisbon", "Europe/Moscow", "Europe/Istanbul", "Europe/Athens", "Europe/Helsinki", "Europe/Dublin", "Europe/Amsterdam", "Europe/Vienna", "Europe/Warsaw", "Europe/Kyiv", "Europe/Zurich", "Europe/Oslo", "Europe/Stockholm", "Asia/Tokyo", "Asia/Seoul", "Asia/Shanghai", "Asia/Hong_Kong", "Asia/Singapore", "Asia/Kolkata", "Asia/Dubai", "Asia/Tehran", "Asia/Karachi", "Asia/Dhaka", "Asia/Bangkok", "Asia/Jakarta", "Asia/Manila", "Asia/Kathmandu", "Asia/Jerusalem", "Asia/Riyadh", "Asia/Baghdad", "Asia/Kabul", "Asia/Tashkent", "Asia/Yangon", "Africa/Cairo", "Africa/Lagos", "Africa/Nairobi", "Africa/Johannesburg", "Africa/Monrovia", "Africa/Casablanca", "Australia/Sydney", "Australia/Perth", "Australia/Adelaide", "Australia/Darwin", "Australia/Lord_Howe", "Pacific/Auckland", "Pacific/Chatham", "Pacific/Honolulu", "Pacific/Fiji", "Pacific/Kiritimati", "Atlantic/Reykjavik", "Atlantic/Azores", "Indian/Maldives"}

// c04State: totality must not wear off. Long histories of distinct values of
// one kind in one process (time zones, regexes, names, durations, strings),
// each parsed and printed twice; one parser fed 70000 statements; a result
// that was returned with a nil error stays printable whatever the same parser
// is asked afterwards (its reader delivering more text after an end of input).
func c04State(c *Ctx) {
	r := c.R
	one := func(label, text string) bool {
		var perr error
		if p, pv, stk := mon.Try(func() {
			q, err := influxql.ParseQuery(text)
			perr = err
			if err == nil {
				_ = q.String()
			}
		}); p {
			r.Violation("panic", map[string]interface{}{"label": "direct", "hex": fmt.Sprintf("%x", text), "input": trunc(text, 200), "why": fmt.Sprintf("%s: %v", label, pv), "stack": stk})
			return false
		}
		_ = perr
		r.Eval(1)
		return true
	}
	nz := 0
	for pass := 0; pass < 2; pass++ {
		for _, z := range c04Zones {
			if _, err := time.LoadLocation(z); err != nil {
				continue
			}
			nz++
			if !one("after "+strconv.Itoa(nz)+" statements with distinct time zones", "SELECT v FROM m WHERE time > '2020-01-01 00:00:00' TZ('"+z+"')") {
				return
			}
		}
	}
	r.Count("history.time-zones", int64(nz))
	for i := 0; i < 3000; i++ {
		n := strconv.Itoa(i)
		for _, t := range []string{
			"SELECT v FROM m WHERE h =~ /^(a" + n + "|b" + n + ")$/ AND g !~ /x" + n + ".*/",
			"SELECT f" + n + " FROM \"m " + n + "\" WHERE s = 'v" + n + "' GROUP BY time(" + strconv.Itoa(i+1) + "s)",
			"SELECT fn" + n + "(x) FROM /re" + n + "/",
		} {
			if !one("after "+n+" rounds of distinct regexes / names / literals", t) {
				return
			}
		}
	}
	r.Count("history.distinct-value-rounds", 3000)
	// one parser, 70000 statements
	{
		text := strings.Repeat("SELECT count(), now() FROM m WHERE time > now();", 70000)
		n := 0
		var last error
		if p, pv, stk := mon.Try(func() {
			ps := influxql.NewParser(strings.NewReader(text))
			for {
				st, err := ps.ParseStatement()
				if err != nil {
					last = err
					return
				}
				_ = st
				n++
				if tok, _, _ := ps.ScanIgnoreWhitespace(); tok != influxql.SEMICOLON {
					return
				}
			}
		}); p {
			r.Violation("panic", map[string]interface{}{"label": "direct", "hex": "", "input": "70000 statements read by one parser", "why": fmt.Sprint(pv), "stack": stk})
		} else if n != 70000 {
			r.Violation("valid-input-rejected-after-long-use", map[string]interface{}{"label": "direct", "hex": "", "input": "SELECT count(), now() FROM m WHERE time > now(); x 70000, one parser", "why": fmt.Sprintf("statement %d of 70000 identical statements was rejected: %v", n+1, last)})
		} else {
			r.Count("history.one-parser-70000-statements", 1)
		}
		r.Eval(1)
	}
	// a returned result and later calls on the same parser
	for _, more := range []string{" SELECT c FROM z; SELECT FROM", "; SELECT 1 +", " ; ; SELECT x FROM y", "'"} {
		buf := &bytes.Buffer{}
		buf.WriteString("SELECT a FROM x; SELECT b FROM y WHERE h =~ /r/")
		var before, after string
		if p, pv, stk := mon.Try(func() {
			ps := influxql.NewParser(buf)
			q1, err := ps.ParseQuery()
			if err != nil {
				return
			}
			before = q1.String()
			buf.WriteString(more)
			_, _ = ps.ParseQuery()
			_, _ = ps.ParseStatement()
			_, _ = ps.ParseExpr()
			after = q1.String()
		}); p {
			r.Violation("panic-using-returned-result", map[string]interface{}{"label": "direct", "hex": "", "input": "ParseQuery, then more text " + strconv.Quote(more) + " and further calls on the same parser", "why": fmt.Sprint(pv), "stack": stk})
		} else if before != after {
			r.Violation("returned-result-changed-by-later-call", map[string]interface{}{"label": "direct", "hex": "", "input": "ParseQuery, then more text " + strconv.Quote(more), "why": fmt.Sprintf("the query returned first printed %q, after later calls on the same parser it prints %q", before, after)})
		} else {
			r.Count("history.result-stable-under-later-calls", 1)
		}
		r.Eval(1)
	}
}

func checkC04(c *Ctx) (string, bool, []string) {
	r := c.R
	rule := fmt.Sprintf("grammar-derived texts with 1-4 mutations (range deletion / duplication, splices, hostile fragments: %d kinds incl. NUL, invalid UTF-8, unterminated quotes and comments, stray $ and placeholders), random bytes, token soups, generated statements whose name / literal tokens are placeholders bound to every bindable and unbindable value (malformed UTF-8 and truncated multi-byte units in durations, names, strings and regexes; floats at 2^63 and 2^64; odd json.Number spellings); 25%% with parameter maps over every bindable kind and wrong kinds; structured stress (nesting depth 10..10^4 quick / 10^5 thorough for (, f(, -(, subqueries; chains and lists of 10^4/10^5 elements; tokens up to 128 KB quick / 1 MB thorough; unterminated everything). Every input through ParseQuery, ParseStatement, ParseExpr under recover, hook assertions and the step budget %d*(runes+1)+%d; accepted results are printed, walked and rewritten. One child runs 24,000 (400,000) of the mutated texts on 8 goroutines with independent parsers. Children with journals attribute process-fatal events. Non-trivial = non-empty input; distinct by text hash.", len(c04Hostile), c04K, c04C)
	assume := []string{"time proportional to input length is observed as scanner steps per input rune (logical time) and as bytes allocated for a text of length n against one of length 4n (21 families of long tokens and long lists), not wall-clock", "printing is exercised for inputs up to 64 KB (String() is quadratic in nesting depth, which the property does not bound)", "a (non-nil result, non-nil error) pair counts as an error return"}
	if c.Replay != nil {
		res := &c04result{Counters: map[string]int64{}}
		label, idx := replayStr(c, "label"), replayInt(c, "idx")
		var text string
		var params map[string]interface{}
		if label == "stress" {
			st := c04Stress(c.Tier == "thorough")
			if idx < len(st) {
				text = st[idx]
			}
		} else if label == "fatal" {
			r.Inconclusive("a process-fatal input cannot be replayed in-process; run: ./check C04 thorough")
			return rule, false, assume
		} else if label == "alloc" {
			c04Alloc(c, replayStr(c, "family"))
			return rule, false, assume
		} else if label == "direct" {
			var b []byte
			fmt.Sscanf(replayStr(c, "hex"), "%x", &b)
			text = string(b)
		} else {
			text, params = c04Case(c.Seed, label, idx)
		}
		c04Exercise(text, params, res, idx, label)
		for _, v := range res.Violations {
			r.Violation(v.Kind, v.Detail)
		}
		return rule, false, assume
	}
	c04Alloc(c, "") // first, while this process does nothing else
	c04State(c)
	bin := os.Getenv("VCHECK_BIN")
	if bin == "" {
		bin, _ = os.Executable()
	}
	tmp, err := os.MkdirTemp(filepath.Join(mon.VerifDir, "harness", "bin"), "c04-")
	if err != nil {
		r.Inconclusive("cannot create scratch directory: " + err.Error())
		return rule, false, assume
	}
	defer os.RemoveAll(tmp)
	nsh := c.Workers
	type child struct {
		cmd                  *exec.Cmd
		out, journal, hashes string
		stderr               string
		err                  error
		done                 chan struct{}
		killedByWatchdog     bool
	}
	watchdog := 15 * time.Minute
	if c.Thorough() {
		watchdog = 90 * time.Minute
	}
	var kids []*child
	first := -3 // -3: independent parsers on 8 goroutines, -2: known process-fatal witnesses, -1: structured stress, 0..: random shards
	for s := first; s < nsh; s++ {
		k := &child{out: filepath.Join(tmp, fmt.Sprintf("out-%d.json", s)), journal: filepath.Join(tmp, fmt.Sprintf("journal-%d", s)), hashes: filepath.Join(tmp, fmt.Sprintf("hashes-%d", s)), stderr: filepath.Join(tmp, fmt.Sprintf("stderr-%d", s)), done: make(chan struct{})}
		k.cmd = exec.Command(bin, "--worker", "c04", strconv.FormatInt(c.Seed, 10), c.Tier, strconv.Itoa(s), strconv.Itoa(nsh), k.out, k.journal, k.hashes)
		ef, _ := os.Create(k.stderr)
		k.cmd.Stderr = ef
		k.cmd.Stdout = ef
		k.cmd.Env = append(os.Environ(), "GOTRACEBACK=single")
		if err := k.cmd.Start(); err != nil {
			r.Inconclusive("cannot start worker: " + err.Error())
			return rule, false, assume
		}
		go func(k *child) { k.err = k.cmd.Wait(); ef.Close(); close(k.done) }(k)
		kids = append(kids, k)
	}
	deadline := time.After(watchdog)
	for _, k := range kids {
		select {
		case <-k.done:
		case <-deadline:
			for _, kk := range kids {
				select {
				case <-kk.done:
				default:
					kk.killedByWatchdog = true
					_ = kk.cmd.Process.Kill()
				}
			}
			<-k.done
		}
	}
	distinct := map[uint64]struct{}{}
	var maxScan, maxRead float64
	var maxTok, maxRune int
	for si, k := range kids {
		s := si + first
		var res c04result
		b, rerr := os.ReadFile(k.out)
		if rerr == nil {
			_ = json.Unmarshal(b, &res)
		}
		if k.killedByWatchdog {
			j, _ := os.ReadFile(k.journal)
			r.Inconclusive(fmt.Sprintf("worker %d exceeded the %v wall-clock watchdog at case %q", s, watchdog, strings.TrimSpace(string(j))))
			continue
		}
		if !res.Done {
			// process-fatal event: attribute it to the journalled input
			j, _ := os.ReadFile(k.journal)
			fields := strings.Fields(string(j))
			label, idx := "?", 0
			if len(fields) >= 2 {
				label = fields[0]
				idx, _ = strconv.Atoi(fields[1])
			}
			se, _ := os.ReadFile(k.stderr)
			tail := string(se)
			if len(tail) > 3000 {
				tail = tail[:3000]
			}
			key := ""
			if strings.Contains(tail, "stack overflow") || strings.Contains(tail, "goroutine stack exceeds") {
				key = "stack-overflow-deep-nesting"
			}
			if key != "" && label == "fatal" && r.Known(key, fmt.Sprintf("fatal-witness input %d (2,000,000 nested parentheses)", idx)) {
				continue
			}
			why := fmt.Sprintf("worker %d died (%v) while parsing case %s/%d", s, k.err, label, idx)
			if label == "conc" {
				why = fmt.Sprintf("worker %d died (%v) while 8 goroutines were parsing independent inputs with independent parsers (cases mut/0.. of this seed)", s, k.err)
			}
			r.Violation("process-fatal", map[string]interface{}{"label": label, "idx": idx, "why": why, "stderr": tail})
			continue
		}
		r.MergeCounts(res.Counters)
		r.Eval(int(res.Counters["calls.ParseQuery"] + res.Counters["calls.ParseStatement"] + res.Counters["calls.ParseExpr"]))
		for _, v := range res.Violations {
			r.Violation(v.Kind, v.Detail)
		}
		if extra := res.NViol - int64(len(res.Violations)); extra > 0 {
			r.Count("violations-not-itemised", extra)
		}
		for _, smp := range res.Samples {
			r.Sample(map[string]string{"input": smp})
		}
		if res.MaxScanPer > maxScan {
			maxScan = res.MaxScanPer
		}
		if res.MaxReadPer > maxRead {
			maxRead = res.MaxReadPer
		}
		if res.MaxTokPB > maxTok {
			maxTok = res.MaxTokPB
		}
		if res.MaxRunePB > maxRune {
			maxRune = res.MaxRunePB
		}
		if hb, err := os.ReadFile(k.hashes); err == nil {
			for i := 0; i+8 <= len(hb); i += 8 {
				distinct[binary.LittleEndian.Uint64(hb[i:])] = struct{}{}
			}
		}
	}
	hs := make([]uint64, 0, len(distinct))
	for h := range distinct {
		hs = append(hs, h)
	}
	sort.Slice(hs, func(i, j int) bool { return hs[i] < hs[j] })
	for _, h := range hs {
		r.Distinct(h)
	}
	r.SetExtra("hook_observations", map[string]interface{}{
		"max_scanFunc_calls_per_rune": maxScan, "max_rune_reads_per_rune": maxRead, "budget_steps_per_rune": c04K,
		"max_token_pushback_depth": maxTok, "max_rune_pushback_depth": maxRune, "ring_size": 3,
	})
	r.Require(maxScan > 0 && maxRead > 0, "hook counters never moved")
	r.Require(maxScan*8 <= c04K && maxRead*8 <= c04K, fmt.Sprintf("step budget %d/rune is less than 8x the observed maximum (%.1f scans, %.1f reads per rune)", c04K, maxScan, maxRead))
	r.Require(r.Counter("inputs.with-params") > 0 && r.Counter("inputs.stress") > 0 && r.Counter("inputs.concurrent") > 0 && r.Counter("outcome.accepted") > 0 && r.Counter("outcome.error") > 0, "input classes not covered")
	return rule, false, assume
}
