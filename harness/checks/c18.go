package checks

import (
	"fmt"
	"regexp"
	"runtime/debug"
	"strings"
	"time"

	"github.com/influxdata/influxql"
	"verifharness/mon"
)

// C18 — SetTimeRange replaces earlier time bounds, over any sequence of
// windows.
//
// Oracle: the generator knows which leaves of the initial condition are time
// bounds (T) and which are not (N). After every call the statement is observed
// through ConditionExpr, as the property prescribes: the range must be exactly
// [start, end-1ns] and in-range AND residual must equal
// (start <= t < end) AND N(p) on every probe point.

func init() { Registry["C18"] = checkC18 }

func countNodes(e influxql.Expr) (nodes, timeLeaves int) {
	influxql.WalkFunc(e, func(n influxql.Node) {
		nodes++
		if b, ok := n.(*influxql.BinaryExpr); ok {
			for _, side := range []influxql.Expr{b.LHS, b.RHS} {
				if v, ok := side.(*influxql.VarRef); ok && strings.EqualFold(v.Val, "time") {
					timeLeaves++
				}
			}
		}
	})
	return
}

type c18win struct{ s, e int64 }

var c18NY, _ = time.LoadLocation("America/New_York")

func c18Windows(rg *mon.Rng) []c18win {
	n := rg.Range(1, 8)
	base := int64(946684800000000000) + int64(rg.Intn(100000))*1000000000
	var out []c18win
	switch rg.Intn(5) {
	case 0: // ascending, continuous-query style
		w := []int64{1000000000, 60000000000, 3600000000000, 250000000, 1}[rg.Intn(5)]
		for i := 0; i < n; i++ {
			out = append(out, c18win{base + int64(i)*w, base + int64(i+1)*w})
		}
	case 1: // random
		for i := 0; i < n; i++ {
			s := base + int64(rg.Intn(1000000))*1000003 - 500000000000
			out = append(out, c18win{s, s + int64(rg.Intn(1000000))*997 + 1})
		}
	case 2: // repeated
		w := c18win{base, base + 600000000000}
		for i := 0; i < n; i++ {
			out = append(out, w)
		}
	case 3: // empty and sub-second
		for i := 0; i < n; i++ {
			s := base + int64(i)*123456789
			out = append(out, c18win{s, s + int64(rg.Intn(3))*333333333})
		}
	default: // at the representable extremes
		out = append(out, c18win{influxql.MinTime + 1, influxql.MinTime + 1000}, c18win{influxql.MaxTime - 1000, influxql.MaxTime}, c18win{influxql.MinTime + 1, influxql.MaxTime})
		for i := 3; i < n; i++ {
			out = append(out, c18win{base, base + 1})
		}
	}
	return out
}

func c18One(c *Ctx, idx int, local map[string]int64) {
	r := c.R
	rg := mon.NewRng(c.Seed, "c18", idx)
	tc := &tcCtx{rg: rg, now: fixedNow, useNow: rg.P(0.4)}
	nt, no := rg.Intn(4), rg.Intn(4)
	var cond *tcNode
	shape := "conjunction"
	switch {
	case nt+no == 0:
		shape = "no-condition"
	case rg.P(0.15) && no >= 2:
		// top-level OR among non-time predicates only
		cond = &tcNode{op: "OR", l: tc.nonTimeTree(1), r: tc.nonTimeTree(1)}
		nt = 0
		shape = "top-level-or"
	case rg.P(0.06):
		// a condition shaped like what SetTimeRange itself leaves behind - a
		// parenthesised group, then the two bounds of a window as RFC3339
		// strings - except that the group holds time bounds of its own
		rfcLeaf := func(op string, inst int64) *tcNode {
			return &tcNode{op: "time", instant: inst, timeOp: op, text: "time " + op + " '" + time.Unix(0, inst).UTC().Format(time.RFC3339Nano) + "'"}
		}
		var group *tcNode
		switch rg.Intn(3) {
		case 0:
			group = &tcNode{op: "AND", l: tc.pred(), r: tc.timeLeaf()}
		case 1:
			group = &tcNode{op: "AND", l: tc.timeLeaf(), r: tc.pred()}
		default:
			group = &tcNode{op: "AND", l: &tcNode{op: "AND", l: tc.pred(), r: tc.timeLeaf()}, r: tc.pred()}
		}
		lo := int64(946684800000000000) + int64(rg.Intn(400))*3600000000000
		cond = &tcNode{op: "AND", l: &tcNode{op: "AND", l: &tcNode{op: "()", l: group}, r: rfcLeaf(">=", lo)}, r: rfcLeaf("<", lo+int64(rg.Range(1, 500))*3600000000000)}
		shape = "own-output-shape-with-inner-bound"
	default:
		cond = tc.condition(nt, no)
	}
	text := "SELECT mean(value) FROM cpu"
	if cond != nil {
		text += " WHERE " + cond.render()
	}
	text += " GROUP BY time(1m)"
	if rg.P(0.3) {
		// the statement's own zone: the planner splits its condition with a
		// valuer that reports it, and the windows are instants all the same
		text += " TZ('" + rg.Pick("America/New_York", "Asia/Kolkata", "UTC", "Pacific/Auckland") + "')"
		local["with-tz"]++
	}
	wins := c18Windows(rg)
	det := func(why string, k int) map[string]interface{} {
		return map[string]interface{}{"idx": idx, "input": text, "windows": fmt.Sprint(wins), "call": k, "why": why}
	}
	var leaves []*tcNode
	if cond != nil {
		cond.timeLeaves(&leaves)
	}
	st, err, pan, _, _ := parseQuery1(text)
	if pan || err != nil {
		r.Violation("generated-statement-rejected", det(fmt.Sprint(err), 0))
		return
	}
	sel := st.(*influxql.SelectStatement)
	r.Eval(1)
	r.DistinctStr(text + fmt.Sprint(wins))
	local["histories"]++
	local["shape."+shape]++
	firstNodes := 0
	var extra []int64
	for _, w := range wins {
		extra = append(extra, w.s, w.e)
	}
	pts := tcPoints(leaves, extra)
	for k, w := range wins {
		var serr error
		// the window's instants, carried by time values in any location (also
		// ones whose offset has seconds, as local mean time has)
		wloc := []*time.Location{time.UTC, time.UTC, time.FixedZone("LMT", -(4*3600 + 56*60 + 2)), time.FixedZone("", 44*60+30), c18NY, time.FixedZone("XST", 5*3600+1800)}[(idx+k)%6]
		if k > 0 && rg.P(0.25) {
			// between two windows the caller edits a predicate in place; the next
			// window must be applied to the statement as it is now, as it would be
			// to the same statement printed and parsed afresh
			edited := false
			influxql.WalkFunc(sel.Condition, func(n influxql.Node) {
				if b, ok := n.(*influxql.BinaryExpr); ok && !edited {
					if sl, ok := b.RHS.(*influxql.StringLiteral); ok && (b.Op == influxql.EQ || b.Op == influxql.NEQ) {
						if vr, ok := b.LHS.(*influxql.VarRef); ok && !strings.EqualFold(vr.Val, "time") {
							sl.Val += "_edited"
							edited = true
						}
					}
				}
			})
			if edited {
				if re, perr := influxql.ParseStatement(sel.String()); perr == nil {
					fresh := re.(*influxql.SelectStatement)
					e1 := sel.SetTimeRange(time.Unix(0, w.s).In(wloc), time.Unix(0, w.e).In(wloc))
					e2 := fresh.SetTimeRange(time.Unix(0, w.s).In(wloc), time.Unix(0, w.e).In(wloc))
					if fmt.Sprint(e1) != fmt.Sprint(e2) || dumpOf(sel.Condition) != dumpOf(fresh.Condition) {
						r.Violation("edit-between-windows-lost", det(fmt.Sprintf("after an in-place edit of a predicate, call %d leaves the condition %s; the same statement printed and parsed afresh gets %s", k+1, sel.Condition, fresh.Condition), k+1))
						return
					}
					local["edited-between-windows"]++
				}
				// the reference model no longer describes the edited predicate
				local["calls"]++
				return
			}
		}
		if p, pv, stk := mon.Try(func() { serr = sel.SetTimeRange(time.Unix(0, w.s).In(wloc), time.Unix(0, w.e).In(wloc)) }); p {
			d := det(fmt.Sprint(pv), k+1)
			d["stack"] = stk
			r.Violation("panic", d)
			return
		}
		local["calls"]++
		known := func() bool {
			// delta attribution of the known finding: a time bound that is not
			// literally lower-case `time <op> X` survives
			for _, l := range leaves {
				if len(l.text) < 5 || l.text[:5] != "time " {
					return r.Known("time-bound-survives", text)
				}
			}
			return false
		}
		if serr != nil {
			if known() {
				return
			}
			r.Violation("SetTimeRange-error", det(serr.Error(), k+1))
			return
		}
		var obs influxql.Valuer
		if sel.Location != nil && k%2 == 0 {
			obs = &influxql.NowValuer{Now: fixedNow, Location: sel.Location}
			local["observed-with-zone-valuer"]++
		}
		resid, tr, cerr := influxql.ConditionExpr(sel.Condition, obs)
		if cerr != nil {
			if known() {
				return
			}
			r.Violation("condition-unusable-after-SetTimeRange", det(fmt.Sprintf("ConditionExpr fails on %q: %v", sel.Condition, cerr), k+1))
			return
		}
		wantMin, wantMax := time.Unix(0, w.s), time.Unix(0, w.e-1)
		// a non-time part that folds to `false` folds the whole condition to
		// `false`: no point is selected, which is what the property asks for;
		// there is no window left to look at, only the points below
		constFalse := false
		if b, ok := resid.(*influxql.BooleanLiteral); ok && !b.Val {
			constFalse = true
			local["condition-folded-to-false"]++
		}
		if !constFalse && (!tr.MinTime().Equal(wantMin) || !tr.MaxTime().Equal(wantMax)) {
			if known() {
				return
			}
			r.Violation("window-not-applied-exactly", det(fmt.Sprintf("after call %d the range is [%s, %s], want [%s, %s]; condition now: %s", k+1, tr.MinTime().UTC().Format(time.RFC3339Nano), tr.MaxTime().UTC().Format(time.RFC3339Nano), wantMin.UTC().Format(time.RFC3339Nano), wantMax.UTC().Format(time.RFC3339Nano), sel.Condition), k+1))
			return
		}
		// every other reference is still there as it was written, cast included
		if cond != nil && !constFalse {
			var orig influxql.Expr
			mon.Try(func() { orig, _ = influxql.ParseExpr(cond.render()) })
			have := tcRefTypes(orig)
			for rt := range tcRefTypes(sel.Condition) {
				if !have[rt] {
					r.Violation("predicate-changed", det(fmt.Sprintf("after call %d the condition refers to %s, which the original condition does not (it has %v); condition now: %s", k+1, rt, have, sel.Condition), k+1))
					return
				}
			}
		}
		nodes, tl := countNodes(sel.Condition)
		if tl != 2 && !constFalse {
			if known() {
				return
			}
			r.Violation("stale-time-bounds", det(fmt.Sprintf("condition has %d time comparisons after call %d, want exactly the new window's 2: %s", tl, k+1, sel.Condition), k+1))
			return
		}
		if k == 0 {
			firstNodes = nodes
		} else if nodes != firstNodes {
			r.Violation("condition-grows", det(fmt.Sprintf("condition has %d nodes after call %d but had %d after the first call: %s", nodes, k+1, firstNodes, sel.Condition), k+1))
			return
		}
		for _, p := range pts {
			want := p.t >= w.s && p.t < w.e && (cond == nil || cond.evalNonTime(p))
			pt := time.Unix(0, p.t)
			in := !pt.Before(tr.MinTime()) && !pt.After(tr.MaxTime())
			rs := true
			if resid != nil {
				rs = influxql.EvalBool(resid, p.valuer())
			}
			local["point-checks"]++
			if want != (in && rs) {
				if known() {
					return
				}
				r.Violation("selects-wrong-points", det(fmt.Sprintf("after call %d, point t=%d host=%s region=%s n=%d x=%v: want %v, got in-range=%v residual=%v; condition now: %s", k+1, p.t, p.host, p.region, p.n, p.x, want, in, rs, sel.Condition), k+1))
				return
			}
		}
	}
	local["ok"]++
}

// c18AfterRefused: a call that SetTimeRange refuses (a hand-built condition
// whose printed form does not parse, short and several KB long) and directly
// after it, on the same goroutine and without a collection in between, an
// ordinary statement: it gets its own window and keeps its own predicates,
// exactly as when the same call is made on its own.
func c18AfterRefused(c *Ctx) {
	r := c.R
	w0, w1 := time.Unix(0, 946684800000000000).UTC(), time.Unix(0, 946688400000000000).UTC()
	texts := []string{"SELECT mean(v) FROM cpu WHERE host = 'a' GROUP BY time(1m)", "SELECT mean(v) FROM cpu WHERE (host = 'a' OR region = 'eu') AND time > now() - 1h GROUP BY time(1m)", "SELECT mean(v) FROM cpu GROUP BY time(1m)"}
	alone := map[string]string{}
	for _, t := range texts {
		st, _ := influxql.ParseStatement(t)
		sel := st.(*influxql.SelectStatement)
		if err := sel.SetTimeRange(w0, w1); err != nil {
			r.Violation("SetTimeRange-error", map[string]interface{}{"idx": -1, "input": t, "why": err.Error()})
			return
		}
		alone[t] = sel.String()
	}
	for _, n := range []int{1, 40, 400, 3000} {
		var cond influxql.Expr = &influxql.BinaryExpr{Op: influxql.EQ, LHS: &influxql.VarRef{Val: "h"}, RHS: &influxql.RegexLiteral{Val: regexp.MustCompile("not-after-equals")}}
		for i := 0; i < n; i++ {
			cond = &influxql.BinaryExpr{Op: influxql.AND, LHS: cond, RHS: &influxql.BinaryExpr{Op: influxql.EQ, LHS: &influxql.VarRef{Val: fmt.Sprintf("t%04d", i)}, RHS: &influxql.StringLiteral{Val: "v"}}}
		}
		for _, t := range texts {
			bad := &influxql.SelectStatement{Fields: influxql.Fields{{Expr: &influxql.VarRef{Val: "v"}}}, Sources: influxql.Sources{&influxql.Measurement{Name: "cpu"}}, Condition: influxql.CloneExpr(cond)}
			st, _ := influxql.ParseStatement(t)
			sel := st.(*influxql.SelectStatement)
			var refused, err error
			old := debug.SetGCPercent(-1)
			p, pv, stk := mon.Try(func() {
				refused = bad.SetTimeRange(w0, w1)
				err = sel.SetTimeRange(w0, w1)
			})
			debug.SetGCPercent(old)
			if p {
				r.Violation("panic-in-SetTimeRange", map[string]interface{}{"idx": -1, "input": t, "why": fmt.Sprint(pv), "stack": stk})
				return
			}
			r.Eval(1)
			if refused == nil {
				r.Count("after-refused.first-call-was-accepted(skipped)", 1)
				continue
			}
			if got := sel.String(); err != nil || got != alone[t] {
				r.Violation("window-not-applied-exactly", map[string]interface{}{"idx": -1, "input": t, "why": fmt.Sprintf("called directly after a call that was refused (a condition of %d predicates whose printed form does not parse), the statement becomes %q (err %v); on its own the same call makes it %q", n+1, trunc(got, 300), err, alone[t])})
				return
			}
			r.Count("after-refused.ordinary-call-unaffected", 1)
		}
	}
}

// c18SameChecksum: two statements whose conditions differ in one tag value,
// chosen so that the condition texts (bare and in parentheses, which is how
// they are carried into the new condition) have the same length and 32-bit
// checksum; the same window is applied to one and then to the other.
func c18SameChecksum(c *Ctx) {
	r := c.R
	w0, w1 := time.Unix(0, 1577836800000000000).UTC(), time.Unix(0, 1577840400000000000).UTC()
	for ki, kind := range mon.SumKinds {
		for fi, head := range []string{"host = 'srv", "(host = 'srv"} {
			a, b, ok := mon.Collide(kind, func(i int) string {
				return head + mon.Word(uint64(c.Seed)+uint64(ki*2+fi), i, 7, "0123456789abcdef")
			}, 1<<20)
			if !ok {
				continue
			}
			va, vb := a[len(head):], b[len(head):]
			for _, v := range []string{va, vb, va} {
				text := "SELECT mean(v) FROM cpu WHERE host = 'srv" + v + "' GROUP BY time(1m)"
				st, err := influxql.ParseStatement(text)
				if err != nil {
					continue
				}
				sel := st.(*influxql.SelectStatement)
				var serr error
				if p, pv, stk := mon.Try(func() {
					serr = sel.SetTimeRange(w0, w1)
					serr = sel.SetTimeRange(w0.Add(time.Hour), w1.Add(time.Hour))
					serr = sel.SetTimeRange(w0, w1)
				}); p {
					r.Violation("panic-in-SetTimeRange", map[string]interface{}{"idx": -1, "input": text, "why": fmt.Sprint(pv), "stack": stk})
					return
				}
				r.Eval(1)
				resid, tr, cerr := influxql.ConditionExpr(sel.Condition, nil)
				want := "host = 'srv" + v + "'"
				if serr != nil || cerr != nil || resid == nil || resid.String() != want || tr.MinTimeNano() != w0.UnixNano() || tr.MaxTimeNano() != w1.UnixNano()-1 {
					r.Violation("window-not-applied-exactly", map[string]interface{}{"idx": -1, "input": text, "why": fmt.Sprintf("after SetTimeRange the condition is %q (errors %v %v); it must keep the predicate %s and select [%v, %v)", trunc(fmt.Sprint(sel.Condition), 300), serr, cerr, want, w0, w1)})
					return
				}
				r.Count("same-checksum.statements", 1)
			}
		}
	}
}

func checkC18(c *Ctx) (string, bool, []string) {
	r := c.R
	rule := "initial conditions: none, conjunctions of 0-3 time bounds (time on either side, any letter case, quoted, with a ::type cast, integer / RFC3339 / date / date-time / duration / now()-relative) with 0-3 other sub-trees (AND, OR, parentheses), or a top-level OR of non-time predicates; sequences of 1-8 windows (passed as time values in UTC, named zones and zones whose offset has seconds; ascending continuous-query style incl. 1ns and 250ms buckets, random, repeated, empty and sub-second, at the representable extremes). A third of the statements carry a TZ clause and are observed alternately without a valuer and with a valuer reporting the statement zone. After every SetTimeRange the statement is observed through ConditionExpr: exact range, exactly two time comparisons, constant node count from the first call on, and agreement with (start <= t < end) AND non-time-part on every probe point. Non-trivial = history of at least one call; distinct by (statement, windows)."
	assume := []string{"observation through ConditionExpr as the property prescribes", "calls other than now() do not occur in the generated conditions (SetTimeRange replaces every call by true)"}
	if c.Replay != nil {
		c18One(c, replayInt(c, "idx"), map[string]int64{})
		return rule, false, assume
	}
	n := c.N(10000, 500000)
	c18AfterRefused(c)
	c18SameChecksum(c)
	mon.Parallel(n, c.Workers, func(i int) {
		local := map[string]int64{}
		c18One(c, i, local)
		r.MergeCounts(local)
	})
	r.Sample(map[string]string{"statement": "SELECT mean(value) FROM cpu WHERE '2000-01-01' <= time AND host = 'a' GROUP BY time(1m)", "windows": "[t0,t0+1m) [t0+1m,t0+2m) ..."})
	for _, s := range []string{"conjunction", "no-condition", "top-level-or"} {
		r.Require(r.Counter("shape."+s) > 0, "initial condition shape "+s+" never generated")
	}
	r.Require(r.Counter("ok") > 0 && r.Counter("calls") > r.Counter("histories"), "no multi-call history observed")
	return rule, false, assume
}
