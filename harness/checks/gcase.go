package checks

import (
	"github.com/influxdata/influxql"
	"verifharness/gen"
	"verifharness/mon"
)

// GCase is one generated statement: the intended AST, the tokens that denote
// it, and one rendering.
type GCase struct {
	Kind  int
	Mask  int
	Want  influxql.Statement
	G     *gen.G
	Text  string
	Gaps  []gen.Gap
	Label string
	Idx   int
}

// genCase regenerates case (label, idx) deterministically from the seed.
// mode: "subset" = minimal payload, mask selects the clauses;
// "random" = random payload (30% with hostile names).
func genCase(seed int64, label string, idx int, kind, mask int, opt gen.Opts, layout string) *GCase {
	rg := mon.NewRng(seed, label, idx)
	g := gen.New(rg, opt)
	if kind < 0 {
		kind = rg.Intn(len(gen.Kinds))
		// SELECT-like statements carry most of the grammar: weight them up
		if rg.P(0.35) {
			kind = gen.KindIndex(rg.Pick("Select", "Select", "Explain", "CreateContinuousQuery"))
		}
	}
	want := g.Statement(kind, mask)
	var l gen.Layout
	switch layout {
	case "minimal":
		l = gen.Layout{Minimal: true}
	case "loose":
		l = gen.Layout{Spaced: true, Loose: true}
	case "spaced":
		l = gen.Layout{Spaced: true}
	default:
		l = gen.Layout{Rg: rg}
	}
	text, gaps := gen.Render(g.B.Toks, l)
	return &GCase{Kind: kind, Mask: mask, Want: want, G: g, Text: text, Gaps: gaps, Label: label, Idx: idx}
}
