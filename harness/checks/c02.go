package checks

import (
	"fmt"
	"runtime/debug"
	"strconv"
	"strings"

	"github.com/influxdata/influxql"
	"verifharness/astx"
	"verifharness/gen"
	"verifharness/mon"
)

// C02 — printed statements re-parse to the same AST.
//
// Oracle: structural comparison (astx) of ParseQuery(stmt.String()) with
// stmt; password text is the only exemption (redacted on purpose).

func init() { Registry["C02"] = checkC02 }

// unredact puts the quoted original password back where String() wrote
// [REDACTED], using the harness's own quoting.
func unredact(printed string, st influxql.Statement) string {
	pw := ""
	switch s := st.(type) {
	case *influxql.CreateUserStatement:
		pw = s.Password
	case *influxql.SetPasswordUserStatement:
		pw = s.Password
	default:
		return printed
	}
	b := &gen.Builder{Plain: true}
	return strings.Replace(printed, "[REDACTED]", b.StrSpell(pw), 1)
}

// wrapNegOperands neutralises the known unary-minus regrouping: every
// product (±1 * x) standing as the right operand of a level-5 operator is
// wrapped in explicit parentheses.
func wrapNegOperands(n influxql.Node) int {
	cnt := 0
	astx.VisitPtrs(n, func(n interface{}) {
		b, ok := n.(*influxql.BinaryExpr)
		if !ok || gen.Prec(b.Op) != 5 {
			return
		}
		if r, ok := b.RHS.(*influxql.BinaryExpr); ok && r.Op == influxql.MUL {
			if l, ok := r.LHS.(*influxql.IntegerLiteral); ok && (l.Val == -1 || l.Val == 1) {
				switch r.RHS.(type) {
				case *influxql.VarRef, *influxql.Call, *influxql.ParenExpr:
					b.RHS = &influxql.ParenExpr{Expr: r}
					cnt++
				}
			}
		}
	})
	return cnt
}

func roundTrip(st influxql.Statement) (printed string, back influxql.Statement, err error, pan bool, pv interface{}, stk string) {
	pan, pv, stk = mon.Try(func() {
		printed = st.String()
	})
	if pan {
		return
	}
	var e2 error
	var p2 bool
	back, e2, p2, pv, stk = parseQuery1(unredact(printed, st))
	err, pan = e2, p2
	return
}

// c02One checks one accepted statement text.
func c02One(c *Ctx, text string, det func(string) map[string]interface{}, local map[string]int64) {
	r := c.R
	st, err, pan, _, _ := parseQuery1(text)
	if pan || err != nil {
		local["not-accepted(skipped)"]++
		return
	}
	r.Eval(1)
	local["accepted"]++
	printed, back, err, pan, pv, stk := roundTrip(st)
	if pan {
		d := det(fmt.Sprint(pv))
		d["stack"] = stk
		r.Violation("panic-in-print-or-reparse", d)
		return
	}
	why := ""
	if err != nil {
		why = fmt.Sprintf("printed text %q is rejected: %v", trunc(printed, 400), err)
	} else if a, b := dumpOf(st), dumpOf(back); a != b {
		why = fmt.Sprintf("printed text %q re-parses differently: %s", trunc(printed, 400), astx.FirstDiff(a, b))
	}
	if why == "" {
		local["roundtrip-ok"]++
		return
	}
	// delta attribution: unary minus
	if st2, err2, pan2, _, _ := parseQuery1(text); !pan2 && err2 == nil {
		if wrapNegOperands(st2) > 0 {
			if _, back2, e3, p3, _, _ := roundTrip(st2); !p3 && e3 == nil && dumpOf(back2) == dumpOf(st2) {
				if r.Known("unary-minus-regroup", text) {
					local["known.unary-minus"]++
					return
				}
			}
		}
	}
	if key := c02Known(st, printed, why); key != "" && r.Known(key, text) {
		local["known."+key]++
		return
	}
	r.Violation("print-parse-roundtrip", det(why))
}

// c02Known recognises remaining known deviations by the statement's shape.
func c02Known(st influxql.Statement, printed, why string) string {
	return ""
}

func checkC02(c *Ctx) (string, bool, []string) {
	r := c.R
	rule := "every statement accepted in the C01 workload (all clause subsets of all 44 kinds, random payloads, 50% with names that need quoting: spaces, dots, quotes, backslashes, newlines, leading digits, non-ASCII, keywords in several casings) is printed and re-parsed; every reserved word in three casings as a quoted name in every name slot of 42 statement shapes; plus sweeps of fractional durations in every duration slot, floats and exponent forms in literals and fill(), negated operands under every operator, regexes with slashes, stand-alone expressions through ParseExpr, multi-statement queries, and about 900 texts on the frontier of the accepted language (escape spellings, counts and durations at and beyond the value ranges, INF, blank-like and letter-like characters, sign-after-sign, adjacent literals): whichever of them the parser accepts must round-trip. Non-trivial = statement has an optional clause, quoted name or operator; distinct by text."
	assume := []string{"password text is exempt (redacted on purpose) and is put back before re-parsing", "structural equality = astx canonical dump"}
	if c.Replay != nil && replayStr(c, "sub") == "expr" {
		text := replayStr(c, "input")
		e, err := influxql.ParseExpr(text)
		if err == nil {
			if e2, err2 := influxql.ParseExpr(e.String()); err2 != nil || dumpOf(e) != dumpOf(e2) {
				r.Violation("expression-roundtrip", map[string]interface{}{"input": text, "why": fmt.Sprint(err2)})
			}
		}
		return rule, false, assume
	}
	if c.Replay != nil {
		if xs, ok := c.Replay["prime"].([]interface{}); ok {
			for _, x := range xs { // texts printed earlier in the same process
				if st, err := influxql.ParseStatement(fmt.Sprint(x)); err == nil {
					mon.Try(func() { _ = st.String() })
				}
			}
		}
		text := replayStr(c, "input")
		c02One(c, text, func(why string) map[string]interface{} { return map[string]interface{}{"input": text, "why": why} }, map[string]int64{})
		return rule, false, assume
	}
	detFor := func(text, sub string) func(string) map[string]interface{} {
		return func(why string) map[string]interface{} {
			return map[string]interface{}{"sub": sub, "input": text, "why": why}
		}
	}
	// Names that differ only by a letter whose case mapping is an ASCII letter
	// (KELVIN SIGN -> k, dotted capital I -> i, long s -> S, dotless i -> I),
	// printed one after the other in this process, in both orders: what was
	// printed before must not decide how a name is quoted now. Runs first and
	// sequentially, before anything else has printed these names.
	{
		local := map[string]int64{}
		subs := [][2]string{{"k", "\u212a"}, {"K", "\u212a"}, {"i", "\u0130"}, {"I", "\u0130"}, {"s", "\u017f"}, {"S", "\u017f"}, {"i", "\u0131"}, {"I", "\u0131"}}
		bases := []string{"k", "i", "s", "kb", "ok", "is", "ski", "link", "Kb", "OK", "IS", "skI", "kelvin_k", "sum_i", "a_s", "disk", "risk", "mask", "in_k", "x_is"}
		tmpl := func(n string) string {
			q := influxql.QuoteIdent(n)
			if !strings.HasPrefix(q, `"`) {
				q = `"` + n + `"`
			}
			return "SELECT " + q + ", mean(" + q + ") AS " + q + " INTO " + q + "." + q + "." + q + " FROM " + q + " WHERE " + q + " = 1 GROUP BY " + q
		}
		for bi, base := range bases {
			for _, sb := range subs {
				k := strings.Index(base, sb[0])
				if k < 0 {
					continue
				}
				twin := base[:k] + sb[1] + base[k+len(sb[0]):]
				first, second := base, twin
				if bi%2 == 1 {
					first, second = twin, base
				}
				t1, t2 := tmpl(first), tmpl(second)
				c02One(c, t1, detFor(t1, "lookalike"), local)
				c02One(c, t2, func(why string) map[string]interface{} {
					return map[string]interface{}{"sub": "lookalike", "input": t2, "prime": []string{t1}, "why": why}
				}, local)
				local["lookalike-name-pairs"]++
			}
		}
		r.MergeCounts(local)
	}
	// What a print leaves behind must not show in the next one: a statement
	// whose text is far beyond any buffer size worth keeping (70 KB .. 1.4 MB)
	// is printed, and directly after it, on the same goroutine and without a
	// collection in between, small statements are printed and read back.
	{
		local := map[string]int64{}
		small := []string{"SELECT a FROM m", "SELECT mean(v) FROM cpu WHERE host = 'a' GROUP BY time(1m)", "SHOW MEASUREMENTS ON db", "SELECT a + b FROM (SELECT a, b FROM m)", "DROP SERIES FROM m WHERE h = 'x'"}
		for _, n := range []int{9000, 30000, 150000} {
			var fs []string
			for i := 0; i < n; i++ {
				fs = append(fs, "f"+strconv.Itoa(i))
			}
			big, err := influxql.ParseStatement("SELECT " + strings.Join(fs, ", ") + " FROM m WHERE " + strings.Join(fs[:n/10], " + ") + " > 1")
			if err != nil {
				r.Violation("print-parse-roundtrip", map[string]interface{}{"sub": "after-large", "input": "SELECT f0, ... f" + strconv.Itoa(n), "why": err.Error()})
				continue
			}
			var sts []influxql.Statement
			for _, t := range small {
				st, _ := influxql.ParseStatement(t)
				sts = append(sts, st)
			}
			old := debug.SetGCPercent(-1)
			bigText := big.String()
			var printed []string
			for _, st := range sts {
				printed = append(printed, st.String())
			}
			debug.SetGCPercent(old)
			r.Eval(1)
			for i, st := range sts {
				back, err := influxql.ParseStatement(printed[i])
				if err != nil || dumpOf(back) != dumpOf(st) {
					r.Violation("print-parse-roundtrip", map[string]interface{}{"sub": "after-large", "input": small[i], "why": fmt.Sprintf("printed directly after a statement of %d bytes, the statement prints as %q (err %v)", len(bigText), trunc(printed[i], 200), err)})
					break
				}
				local["printed-after-a-large-statement"]++
			}
		}
		r.MergeCounts(local)
	}
	type job struct{ kind, mask int }
	var jobs []job
	for k, kd := range gen.Kinds {
		for m := 0; m < 1<<uint(len(kd.Clauses)); m++ {
			jobs = append(jobs, job{k, m})
		}
	}
	mon.Parallel(len(jobs), c.Workers, func(i int) {
		local := map[string]int64{}
		j := jobs[i]
		gc := genCase(c.Seed, "c02.subset", i, j.kind, j.mask, gen.Opts{Simple: true, Hostile: i%2 == 0}, "spaced")
		c02One(c, gc.Text, detFor(gc.Text, "subset"), local)
		r.DistinctStr(gc.Text)
		local["kind."+gen.Kinds[j.kind].Name]++
		r.MergeCounts(local)
	})
	// the frontier of the accepted language: spellings the parser rejects
	// today, or accepts at the very edge of a value range. Whatever is
	// accepted - now or after a change that makes the parser more lenient -
	// must print to text that reads back as the same statement.
	var frontier []string
	for _, e := range []string{`\r`, `\t`, `\0`, `\a`, `\x41`, `\u0041`, `\/`, `\\r`, `''`, `""`, `\'`, `\"`, "\t", "\u00a0", "\u2028", "\ufeff", "\u03bc", "\u212a"} {
		frontier = append(frontier,
			`SELECT "a`+e+`b" FROM m`, `SELECT v FROM "m`+e+`" WHERE s = 'x`+e+`y'`, `DROP MEASUREMENT "m`+e+`"`, `SELECT v FROM m WHERE "t`+e+`" = 'v`+e+`' GROUP BY "g`+e+`"`,
			`CREATE USER "u`+e+`" WITH PASSWORD 'p`+e+`w'`, `SELECT v INTO "db`+e+`"."rp`+e+`"."t`+e+`" FROM m`, `SELECT "f`+e+`"("x`+e+`") AS "al`+e+`" FROM m`)
	}
	for _, n := range []string{"0", "2147483647", "2147483648", "4294967296", "9223372036854775807", "9223372036854775808", "18446744073709551615", "18446744073709551616", "99999999999999999999", "-1", "+5", "1.0", "1e3", "007"} {
		for _, kw := range []string{"LIMIT", "OFFSET", "SLIMIT", "SOFFSET"} {
			frontier = append(frontier, "SELECT v FROM m "+kw+" "+n, "SELECT v FROM (SELECT v FROM m "+kw+" "+n+")", "SHOW TAG KEYS "+kw+" "+n, "SHOW SERIES "+kw+" "+n, "SHOW MEASUREMENTS "+kw+" "+n, "SHOW FIELD KEYS "+kw+" "+n, "SHOW TAG VALUES WITH KEY = k "+kw+" "+n)
		}
		frontier = append(frontier, "CREATE RETENTION POLICY rp ON d DURATION 1h REPLICATION "+n, "ALTER RETENTION POLICY rp ON d REPLICATION "+n, "KILL QUERY "+n, "DROP SHARD "+n, "CREATE DATABASE d WITH REPLICATION "+n)
	}
	for _, d := range []string{"INF", "inf", "0s", "0", "00m", "-1s", "1", "9223372036854775807ns", "9223372036854775808ns", "1h1h", "1µ", "1\u03bcs", "+1h"} {
		for _, cl := range []string{"DURATION", "SHARD DURATION", "FUTURE LIMIT", "PAST LIMIT"} {
			frontier = append(frontier, "CREATE RETENTION POLICY rp ON d DURATION 2h REPLICATION 1 "+cl+" "+d, "ALTER RETENTION POLICY rp ON d "+cl+" "+d, "CREATE DATABASE d WITH "+cl+" "+d, "CREATE DATABASE d WITH "+cl+" "+d+" NAME rp")
		}
		frontier = append(frontier, "CREATE CONTINUOUS QUERY q ON d RESAMPLE EVERY "+d+" FOR "+d+" BEGIN SELECT mean(v) INTO t FROM m GROUP BY time("+d+") END", "SELECT mean(v) FROM m GROUP BY time("+d+", "+d+")", "SELECT v FROM m WHERE time > now() - "+d)
	}
	frontier = append(frontier,
		"SELECT 'a' 'b' FROM m", "SELECT v FROM m WHERE s = 'a' 'b'", "SELECT - -v FROM m", "SELECT a / - -b FROM m", "SELECT + -v, - +v, -(-v) FROM m", "SELECT \u00e9 FROM m", "SELECT v FROM caf\u00e9", "SELECT temp_\u212a FROM m",
		"SEL\u0130CT v FROM m", "SELECT v FR\u212aM m", "SELECT v FROM m W\u0130TH x", "SELECT v\u00a0FROM m", "SELECT v\vFROM m", "SELECT v\fFROM\u2003m", "SELECT v FROM db. rp.m", "SELECT v FROM db . rp . m", "SELECT a. b, c .d FROM m",
		"SELECT v :: float FROM m", "SELECT v:: float FROM m", "SELECT *:: field FROM m", "SELECT v FROM m;;", ";;SELECT v FROM m", "SELECT v FROM m GROUP BY time(1m),", "SELECT v, FROM m", "SELECT v FROM m,", "SELECT (v) (w) FROM m",
		"SELECT 1.e5, 1E5, .5e-3, 0x10, 1_000, 1. FROM m", "SELECT v FROM m WHERE a = TRUE AND b = tRuE", "SELECT v FROM m TZ('utc')", "SELECT v FROM m TZ('America/new_york')", "SELECT v FROM m fill(0x1)", "SELECT v FROM m fill(-0)", "SELECT v FROM m fill(1e2)", "SELECT v FROM m fill( none )")
	mon.Parallel(len(frontier), c.Workers, func(i int) {
		local := map[string]int64{}
		c02One(c, frontier[i], detFor(frontier[i], "frontier"), local)
		local["frontier.tried"]++
		local["frontier.accepted"] += local["accepted"]
		delete(local, "accepted")
		delete(local, "not-accepted(skipped)")
		r.MergeCounts(local)
	})
	nrand := c.N(40000, 1500000)
	mon.Parallel(nrand, c.Workers, func(i int) {
		local := map[string]int64{}
		gc := genCase(c.Seed, "c02.rand", i, -1, -1, gen.Opts{Hostile: i%2 == 0}, "spaced")
		c02One(c, gc.Text, detFor(gc.Text, "random"), local)
		r.DistinctStr(gc.Text)
		local["kind."+gen.Kinds[gc.Kind].Name]++
		if i < 6 {
			if st, err := influxql.ParseStatement(gc.Text); err == nil {
				r.Sample(map[string]string{"text": gc.Text, "printed": st.String()})
			}
		}
		r.MergeCounts(local)
	})
	// targeted sweeps
	var sweeps []string
	durs := []string{"1500ms", "90m", "1ns", "9223372036854775807ns", "1h30m", "36h", "1w", "100u", "0s", "7d", "1001ms", "61s"}
	for _, d := range durs {
		sweeps = append(sweeps,
			"CREATE DATABASE d WITH DURATION "+d+" REPLICATION 2 SHARD DURATION "+d+" FUTURE LIMIT "+d+" PAST LIMIT "+d+" NAME rp",
			"CREATE RETENTION POLICY rp ON d DURATION "+d+" REPLICATION 1 SHARD DURATION "+d+" FUTURE LIMIT "+d+" PAST LIMIT "+d,
			"ALTER RETENTION POLICY rp ON d DURATION "+d+" SHARD DURATION "+d+" FUTURE LIMIT "+d+" PAST LIMIT "+d,
			"SELECT mean(v) FROM m WHERE time > now() - "+d+" GROUP BY time("+d+", "+d+")",
			"SELECT mean(v) FROM m WHERE time > now() - "+d+" GROUP BY time("+d+", -"+d+")",
			"SELECT v FROM m WHERE x = -"+d+" OR y = "+d+" * 2")
		if d != "0s" {
			sweeps = append(sweeps, "CREATE CONTINUOUS QUERY cq ON d RESAMPLE EVERY "+d+" BEGIN SELECT v INTO t FROM m END",
				"CREATE CONTINUOUS QUERY cq ON d RESAMPLE FOR "+d+" BEGIN SELECT v INTO t FROM m END")
		}
	}
	nums := []string{"3.0", "3.", "1000000000000000000000.0", "0.0000001", "100000000000000000000000.0", "0.5", ".5", "12345.678", "9223372036854775807", "9223372036854775808", "18446744073709551615", "0", "007", "-3.0", "-0.0", "-5", "-9223372036854775808", "123456789012345678.0", "9223372036854775808.0", "9223372036854775807.0", "-9223372036854775808.0", "9223372036854775809.0", "18446744073709551616.0", "18446744073709551615.0", "4611686018427387904.0", "9007199254740993.0", "2147483648.0", "4294967296.0", "1e19", "9.223372036854775808e18"}
	for _, n := range nums {
		sweeps = append(sweeps, "SELECT v FROM m WHERE x = "+n, "SELECT v * "+n+" FROM m", "SELECT mean(v) FROM m GROUP BY time(1m) fill("+n+")", "SELECT percentile(v, "+n+") FROM m LIMIT 1")
	}
	ops := []string{"*", "/", "%", "&", "+", "-", "|", "^", "=", "!=", "<", "<=", ">", ">=", "AND", "OR"}
	for _, o := range ops {
		for _, operand := range []string{"-b", "-f(b)", "-(b + c)", "+b", "-b::float", "- 5", "-1h"} {
			sweeps = append(sweeps, "SELECT v FROM m WHERE a "+o+" "+operand, "SELECT v FROM m WHERE "+operand+" "+o+" a", "SELECT v FROM m WHERE a "+o+" "+operand+" "+o+" c")
			if gen.Prec(c09tok[o]) > 3 {
				sweeps = append(sweeps, "SELECT a "+o+" "+operand+" FROM m")
			}
		}
	}
	for _, re := range []string{`/a\/b/`, `/\//`, `/^\/var\/log\/.*$/`, `//`, `/a|b/`, `/\\\/x/`, `/é/`, `/(?i)x/`, `/C:\\\/tmp/`, `/\\\\\/\//`, `/a\\\\/`, `/[\/]+\\\/$/`} {
		sweeps = append(sweeps, "SELECT v FROM "+re+" WHERE h =~ "+re+" AND g !~ "+re, "SELECT "+re+" FROM m GROUP BY "+re, "SELECT mean("+re+") FROM db.rp."+re, "SHOW TAG VALUES WITH KEY =~ "+re, "SHOW MEASUREMENTS WITH MEASUREMENT =~ "+re)
	}
	names := []string{`"my db"`, `"a.b"`, `"q\"t"`, `"b\\s"`, `"nl\nx"`, `"1st"`, `"é"`, `"select"`, `"SELECT"`, `"Time"`, `"x'y"`, `"with space "`, `"true"`, `"and"`, `"inf"`, `"*"`}
	// every reserved word, in three casings, as a quoted name in every slot
	// (a printer that decides "needs quotes" by a table with one word missing,
	// or by a length shortcut, shows only for that word)
	for _, k := range gen.Keywords {
		lo := strings.ToLower(k)
		names = append(names, `"`+lo+`"`, `"`+k+`"`, `"`+k[:1]+lo[1:]+`"`)
	}
	for _, nm := range names {
		sweeps = append(sweeps,
			"SELECT "+nm+", "+nm+"::float, "+nm+"."+nm+", mean("+nm+") AS "+nm+" INTO "+nm+"."+nm+"."+nm+" FROM "+nm+"."+nm+"."+nm+", "+nm+".."+nm+" WHERE "+nm+" = 1 GROUP BY "+nm,
			"SELECT DISTINCT "+nm+" FROM "+nm, "SELECT count(DISTINCT "+nm+") FROM "+nm, "SELECT "+nm+"(x) FROM m", "SELECT v INTO "+nm+".:MEASUREMENT FROM m",
			"SHOW MEASUREMENTS ON "+nm, "SHOW MEASUREMENTS ON "+nm+"."+nm, "SHOW MEASUREMENTS ON "+nm+".* WITH MEASUREMENT = "+nm,
			"SHOW TAG KEYS ON "+nm+" FROM "+nm+" WITH KEY = "+nm, "SHOW TAG KEYS WITH KEY IN ("+nm+", "+nm+")", "SHOW TAG KEYS WITH KEY != "+nm,
			"SHOW TAG VALUES ON "+nm+" WITH KEY = "+nm, "SHOW TAG VALUES WITH KEY IN ("+nm+", x)", "SHOW TAG VALUES CARDINALITY WITH KEY = "+nm,
			"SHOW FIELD KEYS ON "+nm+" FROM "+nm, "SHOW SERIES ON "+nm, "SHOW RETENTION POLICIES ON "+nm, "SHOW GRANTS FOR "+nm,
			"CREATE DATABASE "+nm+" WITH NAME "+nm, "CREATE RETENTION POLICY "+nm+" ON "+nm+" DURATION 1h REPLICATION 1", "ALTER RETENTION POLICY "+nm+" ON "+nm+" DEFAULT",
			"CREATE USER "+nm+" WITH PASSWORD 'p'", "SET PASSWORD FOR "+nm+" = 'p'", "CREATE SUBSCRIPTION "+nm+" ON "+nm+"."+nm+" DESTINATIONS ALL 'a'",
			"DROP SUBSCRIPTION "+nm+" ON "+nm+"."+nm, "DROP CONTINUOUS QUERY "+nm+" ON "+nm, "DROP DATABASE "+nm, "DROP MEASUREMENT "+nm, "DROP RETENTION POLICY "+nm+" ON "+nm, "DROP USER "+nm,
			"GRANT READ ON "+nm+" TO "+nm, "GRANT ALL TO "+nm, "REVOKE WRITE ON "+nm+" FROM "+nm, "REVOKE ALL PRIVILEGES FROM "+nm, "KILL QUERY 5 ON "+nm,
			"CREATE CONTINUOUS QUERY "+nm+" ON "+nm+" BEGIN SELECT v INTO "+nm+" FROM "+nm+" END", "DELETE FROM "+nm+" WHERE "+nm+" = 'x'", "DROP SERIES FROM "+nm, "SELECT v FROM m ORDER BY \"time\" DESC",
			"SELECT v AS "+nm+" FROM (SELECT "+nm+" AS v FROM "+nm+")", "SHOW STATS FOR 'it\\'s'", "SHOW DIAGNOSTICS FOR 'a\\\\b'")
	}
	mon.Parallel(len(sweeps), c.Workers, func(i int) {
		local := map[string]int64{}
		c02One(c, sweeps[i], detFor(sweeps[i], "sweep"), local)
		r.DistinctStr(sweeps[i])
		local["sweep"]++
		r.MergeCounts(local)
	})
	// stand-alone expressions: ParseExpr(e.String()) must give e back
	nexpr := c.N(30000, 800000)
	mon.Parallel(nexpr, c.Workers, func(i int) {
		local := map[string]int64{}
		rg := mon.NewRng(c.Seed, "c02.expr", i)
		g := gen.New(rg, gen.Opts{Hostile: i%2 == 0, MaxDepth: 2 + i%3})
		ctx := gen.CtxCond
		if i%3 == 0 {
			ctx = gen.CtxField
		}
		g.Emit(g.Tree(ctx, g.Opt.MaxDepth))
		text, _ := gen.Render(g.B.Toks, gen.Layout{Spaced: true})
		var e, e2 influxql.Expr
		var err, err2 error
		var printed string
		p, pv, stk := mon.Try(func() {
			e, err = influxql.ParseExpr(text)
			if err == nil {
				printed = e.String()
				e2, err2 = influxql.ParseExpr(printed)
			}
		})
		if p {
			r.Violation("panic-in-expression-roundtrip", map[string]interface{}{"sub": "expr", "input": text, "why": fmt.Sprint(pv), "stack": stk})
			return
		}
		if err != nil {
			return
		}
		r.Eval(1)
		r.DistinctStr("expr|" + text)
		if err2 != nil || dumpOf(e) != dumpOf(e2) {
			why := fmt.Sprintf("printed %q is rejected: %v", trunc(printed, 300), err2)
			if err2 == nil {
				why = fmt.Sprintf("printed %q re-parses differently: %s", trunc(printed, 300), astx.FirstDiff(dumpOf(e), dumpOf(e2)))
			}
			r.Violation("expression-roundtrip", map[string]interface{}{"sub": "expr", "input": text, "why": why})
			return
		}
		local["expr-roundtrip-ok"]++
		r.MergeCounts(local)
	})
	// multi-statement queries: Query.String() joins with ";\n"
	nq := c.N(2000, 50000)
	mon.Parallel(nq, c.Workers, func(i int) {
		rg := mon.NewRng(c.Seed, "c02.query", i)
		local := map[string]int64{}
		var parts []string
		n := rg.Range(2, 4)
		for j := 0; j < n; j++ {
			gc := genCase(c.Seed, "c02.query.part", i*8+j, -1, -1, gen.Opts{NoNeg: true}, "spaced")
			parts = append(parts, gc.Text)
		}
		text := strings.Join(parts, "; ")
		var q, q2 *influxql.Query
		var err, err2 error
		p, pv, stk := mon.Try(func() {
			q, err = influxql.ParseQuery(text)
			if err == nil {
				printed := q.String()
				for _, st := range q.Statements {
					printed = unredact(printed, st)
				}
				q2, err2 = influxql.ParseQuery(printed)
			}
		})
		r.Eval(1)
		if p {
			r.Violation("panic-in-query-roundtrip", map[string]interface{}{"sub": "query", "input": text, "why": fmt.Sprint(pv), "stack": stk})
		} else if err == nil && (err2 != nil || dumpOf(q) != dumpOf(q2)) {
			// statement-level deviations are reported by the statement cases; only flag query-level ones
			okEach := true
			for _, st := range q.Statements {
				if _, back, e, pn, _, _ := roundTrip(st); pn || e != nil || dumpOf(back) != dumpOf(st) {
					okEach = false
				}
			}
			if okEach {
				r.Violation("query-roundtrip", map[string]interface{}{"sub": "query", "input": text, "why": fmt.Sprint("Query.String() does not re-parse to the same statements: ", err2)})
			}
		} else if err == nil {
			local["query-roundtrip-ok"]++
		}
		r.DistinctStr(text)
		r.MergeCounts(local)
	})
	for _, kd := range gen.Kinds {
		r.Require(r.Counter("kind."+kd.Name) > 0, "statement kind "+kd.Name+" never printed")
	}
	r.Require(r.Counter("roundtrip-ok") > 0 && r.Counter("query-roundtrip-ok") > 0 && r.Counter("expr-roundtrip-ok") > 0, "no round trip succeeded")
	return rule, false, assume
}
