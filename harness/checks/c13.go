package checks

import (
	"fmt"
	"regexp"
	"strconv"
	"strings"
	"time"

	"github.com/influxdata/influxql"
	"verifharness/gen"
	"verifharness/mon"
)

// C13 — every operation on a parsed statement is total.
//
// Monitor: recover() at the boundary of every public operation (each run on a
// fresh re-parse of the statement so one operation's mutation cannot mask
// another's); a panic is a violation carrying the operation, the statement
// and the stack. Process-fatal events are caught by ./check (exit status).

func init() { Registry["C13"] = checkC13 }

var lineRe = regexp.MustCompile(`:[0-9]+ \+0x[0-9a-f]+`)

// panicSite extracts the innermost influxql frame of a recovered stack.
func panicSite(stack string) string {
	lines := strings.Split(stack, "\n")
	for i, l := range lines {
		if strings.HasPrefix(l, "github.com/influxdata/influxql.") && i+1 < len(lines) {
			fn := l
			if j := strings.Index(fn, "("); j > 0 {
				fn = fn[:strings.LastIndex(fn, "(")]
			}
			return strings.TrimPrefix(fn, "github.com/influxdata/influxql.")
		}
	}
	return "?"
}

func c13One(c *Ctx, text string, idx int, local map[string]int64) {
	r := c.R
	base, err, pan, _, _ := parseQuery1(text)
	if pan || err != nil {
		local["not-accepted(skipped)"]++
		return
	}
	_ = base
	local["statements"]++
	for oi, op := range Ops {
		st, err, _, _, _ := parseQuery1(text)
		if err != nil {
			return
		}
		rg := mon.NewRng(c.Seed, "c13.op."+op.Name, idx)
		p, pv, stk := mon.Try(func() { op.Run(st, rg) })
		r.Eval(1)
		local["op."+op.Name]++
		if !p {
			continue
		}
		site := panicSite(stk)
		if key := c13Known(op.Name, site, fmt.Sprint(pv), st); key != "" && r.Known(key, text) {
			local["known."+key]++
			continue
		}
		r.Violation("panic-in-operation", map[string]interface{}{"input": text, "op": op.Name, "op_index": oi, "idx": idx, "site": site, "why": fmt.Sprintf("%s panicked in %s: %v", op.Name, site, pv), "stack": stk})
	}
	// the condition reduced under a valuer that knows every name but has no
	// value for it (nil), and the tree that comes out of that reduced, split
	// and evaluated again: trees the library itself produced are in the domain
	if st, err, _, _, _ := parseQuery1(text); err == nil {
		if cond, _, _, _ := stmtParts(st); cond != nil {
			nils := influxql.MapValuer{}
			for _, n := range refNames(st) {
				nils[n] = nil
			}
			if p, pv, stk := mon.Try(func() {
				r1 := influxql.Reduce(cond, nils)
				_ = influxql.Reduce(r1, nil)
				_ = influxql.Reduce(r1, &influxql.NowValuer{Now: fixedNow})
				_, _, _ = influxql.ConditionExpr(r1, nil)
				_ = influxql.EvalBool(r1, map[string]interface{}{})
				_ = r1.String()
			}); p {
				r.Violation("panic-in-operation", map[string]interface{}{"input": text, "op": "Reduce(nil bindings), then Reduce / ConditionExpr / Eval / String of the result", "idx": idx, "site": panicSite(stk), "why": fmt.Sprint(pv), "stack": stk})
			} else {
				local["op.Reduce-with-nil-bindings-then-again"]++
			}
			r.Eval(1)
		}
	}
}

// c13Known recognises known panics by operation + panic site + trigger.
func c13Known(op, site, msg string, st influxql.Statement) string { return "" }

var c13Witness = []string{
	"SELECT top() FROM m",
	"SELECT bottom() FROM m",
	"SELECT mean(v) FROM m GROUP BY time(0s, 1s)",
	"SELECT v FROM m WHERE 10s / 0.5 = 3s",
	"SELECT v FROM m WHERE time > now() - 1h / 0.25",
	"SELECT mean(v) FROM m GROUP BY time()",
	"SELECT mean(v) FROM m GROUP BY foo()",
	"SELECT mean(v) FROM m GROUP BY foo(x)",
	"SHOW SERIES CARDINALITY GROUP BY time()",
	"SELECT mean(v) FROM m GROUP BY time(1m, '2000-01-01T00:00:00Z')",
	"SELECT mean(v) FROM m GROUP BY time(0s, '2000-01-01T00:00:00Z')",
	"SELECT percentile() FROM m",
	"SELECT v FROM (SELECT top() FROM m)",
	"SELECT v FROM m WHERE time > 'x' AND time < -1h / 0",
	"SELECT distinct() FROM m",
	"SELECT count(distinct()) FROM m",
	"SELECT v FROM m WHERE x =~ /a/ OR (y !~ /b/)",
	"SELECT 1h % 0s, 1h / 0s, 5 % 0, 5 / 0 FROM m",
	"SELECT v FROM m WHERE time > 9223372036854775807 AND time < -9223372036854775808",
	"SELECT v FROM m WHERE time = 1e300",
	"SELECT v FROM m WHERE f !~ /^$/ / 2 > true",
	"SELECT v FROM m WHERE f =~ /a/ + 1 AND g !~ /b/ * h",
}

// c13History: a long run of statements that differ in the values a library
// might remember between calls (multi-literal regexes, zone names, names,
// durations, date strings), every one through every operation, one after the
// other in this process.
func c13History(c *Ctx, n int) {
	r := c.R
	local := map[string]int64{}
	for i := 0; i < n; i++ {
		k := strconv.Itoa(i)
		z := c04Zones[i%len(c04Zones)]
		if _, err := time.LoadLocation(z); err != nil {
			z = "UTC"
		}
		text := "SELECT mean(f" + k + "), /^fld" + k + "/ FROM m" + k + ", /^(ma" + k + "|mb" + k + ")$/ WHERE h =~ /^(a" + k + "|b" + k + "|c)$/ AND g !~ /^[xy]" + k + "$/ AND time > '2001-02-03T04:05:06Z' + " + strconv.Itoa(i+1) + "s AND time < now() - " + strconv.Itoa(i+1) + "m GROUP BY time(" + strconv.Itoa(i+1) + "s), /^t" + k + "/ TZ('" + z + "')"
		c13One(c, text, 2000000+i, local)
		local["history.statements"]++
	}
	r.MergeCounts(local)
}

func c13SafeString(st influxql.Statement) (out string) {
	defer func() {
		if recover() != nil {
			out = "<unprintable>"
		}
	}()
	return st.String()
}

// c13Stream: one parser reads statements one after the other and carries on
// after errors (as a console does); the same faulty spelling comes again, and
// whatever is accepted goes through every operation.
func c13Stream(c *Ctx) {
	r := c.R
	local := map[string]int64{}
	bad := []string{"h =~ /(/", "h =~ /a{2,1}/", "h !~ /[z-a]/", "time > now() - 99999999999w", "g = 'bad\\qescape'", "time(1x)", "h =~ $unbound", "f(1, 2", "d = 9223372036854775808ns * 2"}
	for _, b := range bad {
		stmt := "SELECT v FROM m WHERE " + b
		text := stmt + " ; " + stmt + " ; SELECT mean(v) FROM m WHERE h =~ /ok/ GROUP BY time(1m) ; " + stmt
		ps := influxql.NewParser(strings.NewReader(text))
		for k := 0; k < 4; k++ {
			var st influxql.Statement
			var err error
			if p, pv, stk := mon.Try(func() { st, err = ps.ParseStatement() }); p {
				r.Violation("panic-in-operation", map[string]interface{}{"input": text, "op": "ParseStatement", "idx": -1, "why": fmt.Sprintf("statement %d of a stream read by one parser: %v", k+1, pv), "stack": stk})
				break
			}
			r.Eval(1)
			if err == nil {
				for _, op := range Ops {
					rg := mon.NewRng(c.Seed, "c13.stream."+op.Name, k)
					if p, pv, stk := mon.Try(func() { op.Run(st, rg) }); p {
						r.Violation("panic-in-operation", map[string]interface{}{"input": text, "op": op.Name, "idx": -1, "site": panicSite(stk), "why": fmt.Sprintf("statement %d of a stream read by one parser (accepted as %s): %s panicked: %v", k+1, trunc(c13SafeString(st), 120), op.Name, pv), "stack": stk})
						break
					}
				}
				local["stream.accepted-statements"]++
			} else {
				local["stream.rejected-statements"]++
			}
			tok := influxql.ILLEGAL
			for tok != influxql.SEMICOLON && tok != influxql.EOF {
				tok, _, _ = ps.ScanIgnoreWhitespace()
			}
		}
	}
	r.MergeCounts(local)
}

func checkC13(c *Ctx) (string, bool, []string) {
	r := c.R
	rule := fmt.Sprintf("every statement accepted from (a) all clause subsets of all 44 kinds, (b) random payloads, (c) the 'odd but accepted' generator (calls with any argument count, time() dimensions with 0-3 arguments of any kind, zero / negative intervals, duration arithmetic with fractional, zero and huge operands, wildcards / regexes / DISTINCT in argument positions, nested subqueries) (d) a fixed witness list and (e) byte/lexeme-mutated statements that the parser still accepts, each through %d public operations, every operation on a fresh re-parse; schema mappers are one schema for all measurements, an empty one, a failing one, or a schema per measurement (fields only / tag keys only / both / nothing, empty sets handed out as nil maps) through FieldDimensions and RewriteFields. Non-trivial = statement accepted; distinct by text.", len(Ops))
	assume := []string{"a recovered panic inside any listed operation is a violation; errors are fine", "operations: " + opNames()}
	if c.Replay != nil {
		if idx := replayInt(c, "idx"); idx >= 2000000 && idx < 2100000 {
			c13History(c, idx-2000000+1) // the statements before it in this process matter
			return rule, false, assume
		}
		c13One(c, replayStr(c, "input"), replayInt(c, "idx"), map[string]int64{})
		return rule, false, assume
	}
	for i, w := range c13Witness {
		local := map[string]int64{}
		c13One(c, w, 1000000+i, local)
		r.DistinctStr(w)
		local["witness"]++
		r.MergeCounts(local)
	}
	c13History(c, 1800)
	c13Stream(c)
	type job struct{ kind, mask int }
	var jobs []job
	for k, kd := range gen.Kinds {
		n := 1 << uint(len(kd.Clauses))
		step := 1
		if !c.Thorough() && n > 128 {
			step = n / 128
		}
		for m := 0; m < n; m += step {
			jobs = append(jobs, job{k, m})
		}
	}
	mon.Parallel(len(jobs), c.Workers, func(i int) {
		local := map[string]int64{}
		j := jobs[i]
		gc := genCase(c.Seed, "c13.subset", i, j.kind, j.mask, gen.Opts{Simple: true, Odd: i%2 == 0}, "minimal")
		c13One(c, gc.Text, i, local)
		r.DistinctStr(gc.Text)
		r.MergeCounts(local)
	})
	n := c.N(25000, 1000000)
	mon.Parallel(n, c.Workers, func(i int) {
		local := map[string]int64{}
		opt := gen.Opts{Odd: i%4 != 0, Hostile: i%5 == 0, MaxDepth: 2 + i%2}
		gc := genCase(c.Seed, "c13.rand", i, -1, -1, opt, "spaced")
		c13One(c, gc.Text, i, local)
		r.DistinctStr(gc.Text)
		mergeFeat(local, map[string]int{"dim.odd": gc.G.Feat["dim.odd"], "odd.duration-arith": gc.G.Feat["odd.duration-arith"], "call.args.0": gc.G.Feat["call.args.0"], "call.args.3": gc.G.Feat["call.args.3"]})
		if i < 5 {
			r.Sample(map[string]string{"statement": gc.Text, "operations": "all listed in assumptions"})
		}
		r.MergeCounts(local)
	})
	// (e) mutated texts that the parser still accepts: statements nobody would
	// write on purpose
	nm := c.N(60000, 2000000)
	mon.Parallel(nm, c.Workers, func(i int) {
		local := map[string]int64{}
		rg := mon.NewRng(c.Seed, "c13.mut", i)
		a := genCase(c.Seed, "c13.mut.base", i, -1, -1, gen.Opts{Odd: i%2 == 0, MaxDepth: 2}, "random").Text
		b := genCase(c.Seed, "c13.mut.base", i+7919, -1, -1, gen.Opts{MaxDepth: 2}, "random").Text
		text := mutateText(rg, a, b)
		if _, err, pan, _, _ := parseQuery1(text); pan || err != nil {
			local["mutated.rejected"]++
			r.MergeCounts(local)
			return
		}
		local["mutated.accepted"]++
		c13One(c, text, 3000000+i, local)
		r.DistinctStr(text)
		r.MergeCounts(local)
	})
	r.Require(r.Counter("mutated.accepted") > 0, "no mutated text was accepted")
	for _, op := range Ops {
		r.Require(r.Counter("op."+op.Name) > 0, "operation "+op.Name+" never run")
	}
	r.Require(r.Counter("dim.odd") > 0 && r.Counter("odd.duration-arith") > 0 && r.Counter("call.args.0") > 0, "odd statements not generated")
	return rule, false, assume
}

func opNames() string {
	var n []string
	for _, o := range Ops {
		n = append(n, o.Name)
	}
	return strings.Join(n, ", ")
}
