package checks

import (
	"fmt"
	"os"
	"os/exec"
	"strings"
)

// envProbe runs the probe binary (harness/cmd/vfirst, which imports nothing
// but the library) in the given mode, once per TZ setting: the process-global
// time.Local is part of the input there, so each run is a process of its own.
// A MISMATCH line is a violation of kind; a process that dies is one too.
func envProbe(c *Ctx, mode, kind string) {
	r := c.R
	bin := os.Getenv("VFIRST_BIN")
	if bin == "" {
		r.Inconclusive("VFIRST_BIN is not set (./check builds harness/cmd/vfirst for this property)")
		return
	}
	for _, tz := range []string{"", "UTC", "America/New_York", "Asia/Kolkata", "Australia/Lord_Howe"} {
		cmd := exec.Command(bin, mode)
		cmd.Env = append(os.Environ(), "TZ="+tz)
		if tz == "" {
			cmd.Env = os.Environ()
		}
		out, err := cmd.CombinedOutput()
		text := string(out)
		r.Eval(1)
		switch {
		case strings.Contains(text, "MISMATCH"):
			r.Violation(kind, map[string]interface{}{"sub": "env", "input": "probe " + mode + " in a process of its own, TZ=" + tz, "why": trunc(text[strings.Index(text, "MISMATCH"):], 600)})
			return
		case err != nil || !strings.Contains(text, "ENVLOCAL"):
			r.Violation("panic", map[string]interface{}{"sub": "env", "input": "probe " + mode + ", TZ=" + tz, "why": fmt.Sprintf("the probe process died: %v", err), "stack": trunc(text, 3000)})
			return
		}
		r.Count("env-probe."+mode, 1)
	}
}
