// Package checks holds one monitor per property C01–C20.
package checks

import (
	"encoding/json"
	"fmt"
	"os"
	"runtime"

	"verifharness/mon"
)

// Ctx is what a check receives.
type Ctx struct {
	R       *mon.Run
	Tier    string // quick | thorough
	Seed    int64
	Workers int
	// Replay, when non-nil, is the decoded replay file: the check re-runs just
	// that case.
	Replay map[string]interface{}
}

// Thorough reports whether the deep tier was requested.
func (c *Ctx) Thorough() bool { return c.Tier == "thorough" }

// N picks a case count by tier.
func (c *Ctx) N(quick, thorough int) int {
	if c.Thorough() {
		return thorough
	}
	return quick
}

// Check is a property monitor. It returns the rule text, whether the explored
// space was exhaustive, and the assumptions, for the evidence file.
type Check func(c *Ctx) (rule string, exhaustive bool, assumptions []string)

// Registry maps property id to monitor.
var Registry = map[string]Check{}

// Run executes one check and returns the process exit code.
func Run(id, tier string, seed int64, replayPath string) int {
	chk, ok := Registry[id]
	if !ok {
		fmt.Fprintf(os.Stderr, "BROKEN: no check registered for %s\n", id)
		return 3
	}
	c := &Ctx{R: mon.NewRun(id, tier, seed), Tier: tier, Seed: seed, Workers: runtime.NumCPU()}
	if replayPath != "" {
		b, err := os.ReadFile(replayPath)
		if err != nil {
			fmt.Fprintf(os.Stderr, "BROKEN: cannot read replay file: %v\n", err)
			return 3
		}
		if err := json.Unmarshal(b, &c.Replay); err != nil {
			fmt.Fprintf(os.Stderr, "BROKEN: cannot decode replay file: %v\n", err)
			return 3
		}
		if s, ok := c.Replay["seed"].(float64); ok {
			c.Seed = int64(s)
			c.R.Seed = c.Seed
		}
		if t, ok := c.Replay["tier"].(string); ok && t != "" {
			c.Tier = t
			c.R.Tier = t
		}
	}
	if replayPath == "" {
		c.R.ClearReplays()
	}
	rule, exh, assume := chk(c)
	if replayPath != "" {
		// A replay re-runs one case; it never rewrites the evidence file.
		if c.R.Violations() > 0 {
			fmt.Printf("REPLAY property=%s reproduced=true\n", id)
			return 1
		}
		fmt.Printf("REPLAY property=%s reproduced=false\n", id)
		return 0
	}
	return c.R.Finish(rule, exh, assume)
}
