package checks

import (
	"fmt"
	"reflect"
	"strings"

	"github.com/influxdata/influxql"
	"verifharness/astx"
	"verifharness/gen"
	"verifharness/mon"
)

// C01 — the parser accepts the grammar and builds the AST the text denotes.
//
// Oracle: the intended AST built by the AST-first generator, independent of
// String() and of the parser.

func init() { Registry["C01"] = checkC01 }

// c01One parses one generated case and compares structurally.
func c01One(c *Ctx, gc *GCase, sub string, local map[string]int64) bool {
	r := c.R
	det := func(why string) map[string]interface{} {
		return map[string]interface{}{"sub": sub, "label": gc.Label, "idx": gc.Idx, "kind": gen.Kinds[gc.Kind].Name, "kind_index": gc.Kind, "mask": gc.Mask, "input": gc.Text, "why": why}
	}
	st, err, pan, pv, stk := parseQuery1(gc.Text)
	r.Eval(1)
	local["parsed"]++
	if pan {
		d := det(fmt.Sprint(pv))
		d["stack"] = stk
		r.Violation("panic-in-parse", d)
		return false
	}
	if err != nil {
		if key := c01Known(gc, err.Error()); key != "" && r.Known(key, gc.Text) {
			return false
		}
		r.Violation("grammatical-statement-rejected", det(err.Error()))
		return false
	}
	want, got := dumpOf(gc.Want), dumpOf(st)
	if want != got {
		r.Violation("ast-differs-from-denoted", det(astx.FirstDiff(want, got)))
		return false
	}
	local["ast-equal"]++
	// ParseStatement must build the same statement (it does not look at what follows)
	var st2 influxql.Statement
	var err2 error
	if p, pv, stk := mon.Try(func() { st2, err2 = influxql.ParseStatement(gc.Text) }); p {
		d := det(fmt.Sprint(pv))
		d["stack"] = stk
		r.Violation("panic-in-ParseStatement", d)
		return false
	}
	if err2 != nil || dumpOf(st2) != want {
		r.Violation("ParseStatement-differs", det(fmt.Sprintf("ParseStatement: err=%v, %s", err2, astx.FirstDiff(want, dumpOf(st2)))))
		return false
	}
	local["ParseStatement-equal"]++
	// two parses are two trees: nothing mutable in one is part of the other
	if gc.Idx%2 == 0 {
		if sh := sharedNode(st, st2); sh != "" {
			r.Violation("parses-share-a-node", det("the statements returned by two parses of this text share a mutable node: "+sh))
			return false
		}
		local["parses-disjoint"]++
	}
	return true
}

// c01Expr generates one expression, renders it and compares ParseExpr's tree.
func c01Expr(c *Ctx, idx int, local map[string]int64) {
	r := c.R
	rg := mon.NewRng(c.Seed, "c01.expr", idx)
	g := gen.New(rg, gen.Opts{Hostile: idx%4 == 0, MaxDepth: 2 + idx%3})
	ctx := gen.CtxCond
	if idx%3 == 0 {
		ctx = gen.CtxField
	}
	want := g.Tree(ctx, g.Opt.MaxDepth)
	g.Emit(want)
	text, _ := gen.Render(g.B.Toks, gen.Layout{Rg: rg})
	det := func(why string) map[string]interface{} {
		return map[string]interface{}{"sub": "expr", "idx": idx, "input": text, "why": why}
	}
	var got influxql.Expr
	var err error
	if p, pv, stk := mon.Try(func() { got, err = influxql.ParseExpr(text) }); p {
		d := det(fmt.Sprint(pv))
		d["stack"] = stk
		r.Violation("panic-in-ParseExpr", d)
		return
	}
	r.Eval(1)
	r.DistinctStr("expr|" + text)
	local["expressions"]++
	if err != nil {
		r.Violation("grammatical-expression-rejected", det(err.Error()))
		return
	}
	if a, b := dumpOf(want), dumpOf(got); a != b {
		r.Violation("expression-ast-differs", det(astx.FirstDiff(a, b)))
		return
	}
	local["expr-equal"]++
	mergeFeat(local, g.Feat)
}

// c01Query joins 2-4 generated statements with `;` (any whitespace around the
// separator, optional trailing `;`) and requires ParseQuery to return exactly
// the intended statements, in order: each statement must stop consuming text
// where its own grammar ends.
func c01Query(c *Ctx, idx int, local map[string]int64) {
	r := c.R
	rg := mon.NewRng(c.Seed, "c01.query", idx)
	n := 2 + rg.Intn(3)
	var want []influxql.Statement
	var sb strings.Builder
	var kinds []string
	for j := 0; j < n; j++ {
		kind, mask := -1, -1
		if rg.P(0.5) {
			// all options left out: the statement ends right after its mandatory part
			kind, mask = rg.Intn(len(gen.Kinds)), 0
		}
		gc := genCase(c.Seed, "c01.query.stmt", idx*8+j, kind, mask, gen.Opts{Simple: rg.Bool(), MaxDepth: 1}, "random")
		if j > 0 {
			sb.WriteString(rg.Pick("", " ", "\n", "\t ") + ";" + rg.Pick("", " ", "\n", " \r\n"))
		}
		sb.WriteString(gc.Text)
		want = append(want, gc.Want)
		kinds = append(kinds, gen.Kinds[gc.Kind].Name)
		local["query.kind."+gen.Kinds[gc.Kind].Name]++
	}
	if rg.P(0.3) {
		sb.WriteString(rg.Pick(";", " ;", "; ", ";\n"))
	}
	text := sb.String()
	det := func(why string) map[string]interface{} {
		return map[string]interface{}{"sub": "query", "idx": idx, "input": text, "kinds": kinds, "why": why}
	}
	var q *influxql.Query
	var err error
	if p, pv, stk := mon.Try(func() { q, err = influxql.ParseQuery(text) }); p {
		d := det(fmt.Sprint(pv))
		d["stack"] = stk
		r.Violation("panic-in-parse", d)
		return
	}
	r.Eval(1)
	r.DistinctStr("query|" + text)
	if err != nil {
		r.Violation("grammatical-query-rejected", det(err.Error()))
		return
	}
	if len(q.Statements) != n {
		r.Violation("query-statement-count", det(fmt.Sprintf("%d statements written, %d returned", n, len(q.Statements))))
		return
	}
	for j := range want {
		if a, b := dumpOf(want[j]), dumpOf(q.Statements[j]); a != b {
			r.Violation("ast-differs-from-denoted", det(fmt.Sprintf("statement %d (%s): %s", j, kinds[j], astx.FirstDiff(a, b))))
			return
		}
	}
	local["query-equal"]++
}

// c01Long: flat statements of n repeated elements. Nothing in the grammar
// limits how many fields, sources, terms, list items or statements a text may
// have, and repeating an element does not nest anything.
func c01Long(c *Ctx, n int) {
	r := c.R
	rep := func(f func(i int) string, sep string) string {
		var sb strings.Builder
		for i := 0; i < n; i++ {
			if i > 0 {
				sb.WriteString(sep)
			}
			sb.WriteString(f(i))
		}
		return sb.String()
	}
	num := func(p string) func(int) string { return func(i int) string { return p + fmt.Sprint(i) } }
	fix := func(s string) func(int) string { return func(int) string { return s } }
	cases := []struct {
		name, text string
		count      func(q *influxql.Query) int
	}{
		{"now()-terms", "SELECT x FROM m WHERE " + rep(func(i int) string { return fmt.Sprintf("now() > t%d", i) }, " AND "), func(q *influxql.Query) int { return countNodes01(q, "call") }},
		{"argless-call-fields", "SELECT " + rep(fix("f()"), ", ") + " FROM m", func(q *influxql.Query) int { return len(q.Statements[0].(*influxql.SelectStatement).Fields) }},
		{"statements", rep(fix("SELECT now() FROM m WHERE time > now() - 1h"), ";"), func(q *influxql.Query) int { return len(q.Statements) }},
		{"groups", "SELECT " + rep(fix("(a)"), " + ") + " FROM m", func(q *influxql.Query) int { return countNodes01(q, "paren") }},
		{"signed-operands", "SELECT x FROM m WHERE " + rep(fix("-a < +b"), " OR "), func(q *influxql.Query) int { return countNodes01(q, "varref") / 2 }},
		{"list-items", "SHOW TAG KEYS WITH KEY IN (" + rep(num("k"), ", ") + ")", func(q *influxql.Query) int {
			return len(q.Statements[0].(*influxql.ShowTagKeysStatement).TagKeyExpr.(*influxql.ListLiteral).Vals)
		}},
		{"sources", "SELECT x FROM " + rep(num("m"), ", "), func(q *influxql.Query) int { return len(q.Statements[0].(*influxql.SelectStatement).Sources) }},
		{"dimensions", "SELECT mean(x) FROM m GROUP BY " + rep(num("t"), ", "), func(q *influxql.Query) int { return len(q.Statements[0].(*influxql.SelectStatement).Dimensions) }},
		{"call-arguments", "SELECT f(" + rep(num("a"), ", ") + ") FROM m", func(q *influxql.Query) int {
			return len(q.Statements[0].(*influxql.SelectStatement).Fields[0].Expr.(*influxql.Call).Args)
		}},
		{"casts-and-regexes", "SELECT " + rep(func(i int) string { return fmt.Sprintf("v%d::float", i) }, ", ") + " FROM " + rep(func(i int) string { return fmt.Sprintf("/^m%d$/", i) }, ", "), func(q *influxql.Query) int {
			return len(q.Statements[0].(*influxql.SelectStatement).Sources)
		}},
	}
	for _, cs := range cases {
		var q *influxql.Query
		var err error
		var got int
		det := func(why string) map[string]interface{} {
			return map[string]interface{}{"sub": "long", "n": n, "input": trunc(cs.text, 200), "case": cs.name, "why": why}
		}
		if p, pv, stk := mon.Try(func() {
			q, err = influxql.ParseQuery(cs.text)
			if err == nil {
				got = cs.count(q)
			}
		}); p {
			d := det(fmt.Sprint(pv))
			d["stack"] = stk
			r.Violation("panic-in-parse", d)
			continue
		}
		r.Eval(1)
		r.DistinctStr(fmt.Sprintf("long|%s|%d", cs.name, n))
		if err != nil {
			r.Violation("grammatical-statement-rejected", det(fmt.Sprintf("%d repeated elements (%s): %v", n, cs.name, err)))
			continue
		}
		if got != n {
			r.Violation("ast-differs-from-denoted", det(fmt.Sprintf("%d elements written (%s), %d in the tree", n, cs.name, got)))
			continue
		}
		r.Count("long."+cs.name, 1)
	}
}

func countNodes01(q *influxql.Query, kind string) int {
	n := 0
	influxql.WalkFunc(q, func(nd influxql.Node) {
		switch nd.(type) {
		case *influxql.Call:
			if kind == "call" {
				n++
			}
		case *influxql.ParenExpr:
			if kind == "paren" {
				n++
			}
		case *influxql.VarRef:
			if kind == "varref" {
				n++
			}
		}
	})
	return n
}

// langShape records the dispatch tree: every path with its handler tokens and
// the code address of each handler.
func langShape(t *influxql.ParseTree, path string, out map[string]uintptr) {
	for tok, h := range t.Handlers {
		out[path+"/"+tok.String()] = reflect.ValueOf(h).Pointer()
	}
	for tok, sub := range t.Tokens {
		out[path+"/"+tok.String()+"/"] = 0
		langShape(sub, path+"/"+tok.String(), out)
	}
}

// customiseLanguage registers a foreign statement under every group of t,
// replaces every handler, and adds a new nested group at every level; it
// returns the number of groups visited.
func customiseLanguage(t *influxql.ParseTree) int {
	foreign := func(p *influxql.Parser) (influxql.Statement, error) {
		return &influxql.ShowDatabasesStatement{}, nil
	}
	groups := 0
	var visit func(t *influxql.ParseTree)
	visit = func(t *influxql.ParseTree) {
		groups++
		// a new statement under this prefix
		for _, tok := range []influxql.Token{influxql.ANY, influxql.STATS, influxql.DESTINATIONS} {
			if _, a := t.Handlers[tok]; a {
				continue
			}
			if _, b := t.Tokens[tok]; b {
				continue
			}
			mon.Try(func() { t.Handle(tok, foreign) })
			break
		}
		for tok := range t.Handlers {
			t.Handlers[tok] = foreign
		}
		for _, sub := range t.Tokens {
			visit(sub)
		}
		mon.Try(func() { t.Group(influxql.ALL, influxql.ANY).Handle(influxql.ALL, foreign) })
	}
	visit(t)
	return groups
}

// c01LanguageClone customises a clone of the process-wide dispatch tree the
// way an embedding server does (new statements under existing prefixes,
// replaced handlers, at every depth) and requires the default language to be
// untouched. It runs before the rest of the workload, so a leak would also
// show as wrong ASTs there.
// c01SameChecksum: regexes, names and strings that differ but have the same
// length and the same 32-bit checksum (FNV-1a, FNV-1, CRC-32), parsed one
// after the other in this process: each statement carries what was written in
// it, not what an earlier statement with the same fingerprint held.
func c01SameChecksum(c *Ctx) {
	r := c.R
	const al = "abcdefghijklmnopqrstuvwxyz0123456789"
	for ki, kind := range mon.SumKinds {
		for fi, form := range []func(w string) string{
			func(w string) string { return "h" + w },
			func(w string) string { return "^host-" + w + "$" },
		} {
			a, b, ok := mon.Collide(kind, func(i int) string { return form(mon.Word(uint64(c.Seed)+uint64(ki*7+fi), i, 7, al)) }, 1<<20)
			if !ok {
				r.Count("same-checksum.no-pair-found", 1)
				continue
			}
			for _, tmpl := range []string{"SELECT v FROM m WHERE h =~ /%s/", "SELECT v FROM /%s/", "SELECT \"%s\" FROM m", "SELECT v FROM m WHERE h = '%s'", "SELECT mean(v) FROM m GROUP BY /%s/"} {
				for _, w := range []string{a, b, a} {
					text := fmt.Sprintf(tmpl, w)
					st, err, pan, pv, stk := parseQuery1(text)
					r.Eval(1)
					if pan || err != nil {
						r.Violation("grammatical-statement-rejected", map[string]interface{}{"sub": "same-checksum", "input": text, "why": fmt.Sprint(err, pv), "stack": stk})
						return
					}
					var seen []string
					influxql.WalkFunc(st, func(n influxql.Node) {
						switch x := n.(type) {
						case *influxql.RegexLiteral:
							if x != nil && x.Val != nil {
								seen = append(seen, x.Val.String())
							}
						case *influxql.StringLiteral:
							seen = append(seen, x.Val)
						case *influxql.VarRef:
							seen = append(seen, x.Val)
						case *influxql.Measurement:
							if x.Regex != nil && x.Regex.Val != nil {
								seen = append(seen, x.Regex.Val.String())
							}
						}
					})
					other := a
					if w == a {
						other = b
					}
					found := false
					for _, v := range seen {
						if v == other {
							r.Violation("ast-differs-from-denoted", map[string]interface{}{"sub": "same-checksum", "input": text, "why": fmt.Sprintf("the statement was written with %q; its AST holds %q, which an earlier statement held (the two texts have the same length and the same %s checksum)", w, other, kind)})
							return
						}
						found = found || v == w
					}
					if !found {
						r.Violation("ast-differs-from-denoted", map[string]interface{}{"sub": "same-checksum", "input": text, "why": fmt.Sprintf("the AST does not hold %q anywhere (values found: %q)", w, seen)})
						return
					}
					r.Count("same-checksum.statements", 1)
				}
			}
		}
	}
}

func c01LanguageClone(c *Ctx) {
	r := c.R
	before := map[string]uintptr{}
	langShape(influxql.Language, "", before)
	groups := 0
	visit := func(t *influxql.ParseTree, _ string) { groups += customiseLanguage(t) }
	for round := 0; round < 2; round++ {
		cl := influxql.Language.Clone()
		visit(cl, "")
		// the clone speaks the customised language
		p := influxql.NewParser(strings.NewReader("KILL QUERY 4"))
		if st, err := cl.Parse(p); err != nil || dumpOf(st) != dumpOf(&influxql.ShowDatabasesStatement{}) {
			r.Inconclusive(fmt.Sprintf("customised clone did not dispatch to the replaced handler (err=%v)", err))
		}
	}
	r.Eval(groups)
	r.Count("language-clone.groups-customised", int64(groups))
	after := map[string]uintptr{}
	langShape(influxql.Language, "", after)
	for k, v := range before {
		if w, ok := after[k]; !ok || w != v {
			r.Violation("default-language-changed-by-clone", map[string]interface{}{"sub": "language-clone", "input": k, "why": "customising Language.Clone() changed the process-wide Language at " + k})
			return
		}
	}
	for k := range after {
		if _, ok := before[k]; !ok {
			r.Violation("default-language-changed-by-clone", map[string]interface{}{"sub": "language-clone", "input": k, "why": "customising Language.Clone() added " + k + " to the process-wide Language"})
			return
		}
	}
	for _, q := range []string{"KILL QUERY 4", "SHOW GRANTS FOR u", "DROP RETENTION POLICY rp ON db", "SET PASSWORD FOR u = 'x'", "SHOW TAG KEYS", "SHOW CONTINUOUS QUERIES", "ALTER RETENTION POLICY rp ON db DEFAULT"} {
		st, err := influxql.ParseStatement(q)
		if err != nil || strings.HasPrefix(dumpOf(st), dumpOf(&influxql.ShowDatabasesStatement{})) {
			r.Violation("default-language-changed-by-clone", map[string]interface{}{"sub": "language-clone", "input": q, "why": fmt.Sprintf("after customising a clone the default language parses this as %T (err=%v)", st, err)})
			return
		}
	}
	for _, q := range []string{"SHOW TAG STATS", "SHOW TAG ANY", "KILL ANY", "ALL ANY ALL", "SHOW GRANTS ANY"} {
		if _, err := influxql.ParseStatement(q); err == nil {
			r.Violation("default-language-changed-by-clone", map[string]interface{}{"sub": "language-clone", "input": q, "why": "foreign statement registered on a clone is accepted by the default language"})
			return
		}
	}
	r.Count("language-clone.default-unchanged", 1)
}

// c01Known recognises known C01 deviations by their precise shape.
func c01Known(gc *GCase, errText string) string {
	return ""
}

func checkC01(c *Ctx) (string, bool, []string) {
	r := c.R
	rule := "AST-first generation: for each of the 44 statement kinds every subset of its optional clauses with minimal payloads (exhaustive), rendered in two layouts; plus random payloads (names of 1-3 segments, regex sources, back-references, subqueries, casts, wildcards, calls, all operators, every literal kind incl. boundary integers, signed operands) in random spellings (keyword case, quoting, escapes, number and duration spellings, whitespace kinds). Each text goes through ParseQuery and ParseStatement, and stand-alone generated expressions through ParseExpr; every result is compared structurally with the intended AST, and the trees of two parses of one text must share no mutable node. Queries of 2-4 generated statements joined by `;` must return exactly the intended statement list (half of the members with every option left out, so each kind is followed directly by the separator). Flat statements of 70 ... 30,000 (120,000) repeated elements - argument-less calls, groups, signed operands, fields, sources, dimensions, list items, call arguments, statements - must be accepted with exactly that many elements. Before the workload, clones of the dispatch tree are customised at every group (new statements, replaced handlers) and the default language must be unchanged. Non-trivial = at least one optional clause present or an expression with an operator; distinct by text."
	assume := []string{"the generator's model of the grammar (README plus parser extensions listed in DESIGN.md section 2)", "structural equality = astx canonical dump"}
	if c.Replay != nil {
		opt := gen.Opts{}
		sub := replayStr(c, "sub")
		layout := "random"
		switch sub {
		case "subset-min":
			opt.Simple = true
			layout = "minimal"
		case "subset-rand":
			opt.Simple = true
		case "random-hostile":
			opt.Hostile = true
		}
		if sub == "expr" {
			c01Expr(c, replayInt(c, "idx"), map[string]int64{})
			return rule, false, assume
		}
		if sub == "query" {
			c01Query(c, replayInt(c, "idx"), map[string]int64{})
			return rule, false, assume
		}
		if sub == "long" {
			c01Long(c, replayInt(c, "n"))
			return rule, false, assume
		}
		if sub == "language-clone" {
			c01LanguageClone(c)
			return rule, false, assume
		}
		if sub == "same-checksum" {
			c01SameChecksum(c)
			return rule, false, assume
		}
		kind := replayInt(c, "kind_index")
		mask := replayInt(c, "mask")
		if strings.HasPrefix(sub, "random") {
			kind, mask = -1, -1
		}
		gc := genCase(c.Seed, replayStr(c, "label"), replayInt(c, "idx"), kind, mask, opt, layout)
		c01One(c, gc, sub, map[string]int64{})
		return rule, false, assume
	}
	// 0. API history: customised clones of the dispatch tree
	c01LanguageClone(c)
	c01SameChecksum(c)
	// tz('Local') denotes the zone local time has when the statement is parsed
	// (a program may assign time.Local): probed in processes of their own
	envProbe(c, "env-local-swap", "ast-differs-from-denoted")
	envProbe(c, "env-first-tz", "grammatical-statement-rejected")
	// 0b. long flat statements
	for _, n := range []int{70, 300, 2000, 12000, c.N(30000, 120000)} {
		c01Long(c, n)
	}
	// 1. exhaustive clause subsets
	type job struct{ kind, mask int }
	var jobs []job
	for k, kd := range gen.Kinds {
		for m := 0; m < 1<<uint(len(kd.Clauses)); m++ {
			jobs = append(jobs, job{k, m})
		}
	}
	mon.Parallel(len(jobs), c.Workers, func(i int) {
		local := map[string]int64{}
		j := jobs[i]
		gc := genCase(c.Seed, "c01.subset", i, j.kind, j.mask, gen.Opts{Simple: true}, "minimal")
		c01One(c, gc, "subset-min", local)
		gc2 := genCase(c.Seed, "c01.subset", i, j.kind, j.mask, gen.Opts{Simple: true}, "random")
		c01One(c, gc2, "subset-rand", local)
		if j.mask != 0 {
			r.DistinctStr(gc.Text)
			r.DistinctStr(gc2.Text)
		}
		local["subset.kind."+gen.Kinds[j.kind].Name]++
		mergeFeat(local, gc.G.Feat)
		if i%1500 == 1 {
			r.Sample(map[string]string{"kind": gen.Kinds[j.kind].Name, "text": gc2.Text})
		}
		r.MergeCounts(local)
	})
	r.Count("subset.cases", int64(len(jobs)))
	// 2. random payloads
	nrand := c.N(40000, 1500000)
	mon.Parallel(nrand, c.Workers, func(i int) {
		local := map[string]int64{}
		opt := gen.Opts{}
		sub := "random"
		if i%10 < 3 {
			opt.Hostile = true
			sub = "random-hostile"
		}
		gc := genCase(c.Seed, "c01.rand", i, -1, -1, opt, "random")
		c01One(c, gc, sub, local)
		r.DistinctStr(gc.Text)
		mergeFeat(local, gc.G.Feat)
		if i < 6 {
			r.Sample(map[string]string{"kind": gen.Kinds[gc.Kind].Name, "text": gc.Text})
		}
		r.MergeCounts(local)
	})
	nexpr := c.N(30000, 1000000)
	mon.Parallel(nexpr, c.Workers, func(i int) {
		local := map[string]int64{}
		c01Expr(c, i, local)
		r.MergeCounts(local)
	})
	nq := c.N(15000, 400000)
	mon.Parallel(nq, c.Workers, func(i int) {
		local := map[string]int64{}
		c01Query(c, i, local)
		r.MergeCounts(local)
	})
	r.Require(r.Counter("query-equal") > 0, "no multi-statement query compared")
	for _, kd := range gen.Kinds {
		r.Require(r.Counter("query.kind."+kd.Name) > 0, "statement kind "+kd.Name+" never placed inside a multi-statement query")
	}
	r.Require(r.Counter("expr-equal") > 0 && r.Counter("ParseStatement-equal") > 0, "ParseExpr / ParseStatement never compared")
	for _, kd := range gen.Kinds {
		r.Require(r.Counter("kind."+kd.Name) > 0, "statement kind "+kd.Name+" never generated")
		for _, cl := range kd.Clauses {
			r.Require(r.Counter("clause."+kd.Name+"."+cl+".on") > 0 && r.Counter("clause."+kd.Name+"."+cl+".off") > 0, "clause "+kd.Name+"."+cl+" not seen both present and absent")
		}
	}
	for _, f := range []string{"op.+", "op.-", "op.*", "op./", "op.%", "op.&", "op.|", "op.^", "op.AND", "op.OR", "op.=", "op.!=", "op.<", "op.<=", "op.>", "op.>=", "op.=~", "op.!~",
		"lit.integer", "lit.number", "lit.string", "lit.boolean", "lit.duration", "lit.unsigned", "lit.regex", "neg-atom", "source.subquery", "field.wildcard", "field.regex", "field.distinct", "dim.time", "dim.wildcard", "dim.regex",
		"cast.float", "cast.integer", "cast.unsigned", "cast.string", "cast.boolean", "cast.field", "cast.tag", "name.hostile", "ref.empty-middle-segment"} {
		r.Require(r.Counter(f) > 0, "feature "+f+" never generated")
	}
	for f := 0; f < 8; f++ {
		r.Require(r.Counter(fmt.Sprintf("source.form.%d", f)) > 0, fmt.Sprintf("source form %d never generated", f))
	}
	for f := 0; f < 7; f++ {
		r.Require(r.Counter(fmt.Sprintf("target.form.%d", f)) > 0, fmt.Sprintf("target form %d never generated", f))
	}
	r.Require(r.Counter("ast-equal") > 0, "no statement parsed to its intended AST")
	return rule, false, assume
}

func mergeFeat(local map[string]int64, feat map[string]int) {
	for k, v := range feat {
		local[k] += int64(v)
	}
}
