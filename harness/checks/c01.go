package checks

import (
	"fmt"
	"strings"

	"github.com/influxdata/influxql"
	"verifharness/astx"
	"verifharness/gen"
	"verifharness/mon"
)

// C01 — the parser accepts the grammar and builds the AST the text denotes.
//
// Oracle: the intended AST built by the AST-first generator, independent of
// String() and of the parser.

func init() { Registry["C01"] = checkC01 }

// c01One parses one generated case and compares structurally.
func c01One(c *Ctx, gc *GCase, sub string, local map[string]int64) bool {
	r := c.R
	det := func(why string) map[string]interface{} {
		return map[string]interface{}{"sub": sub, "label": gc.Label, "idx": gc.Idx, "kind": gen.Kinds[gc.Kind].Name, "kind_index": gc.Kind, "mask": gc.Mask, "input": gc.Text, "why": why}
	}
	st, err, pan, pv, stk := parseQuery1(gc.Text)
	r.Eval(1)
	local["parsed"]++
	if pan {
		d := det(fmt.Sprint(pv))
		d["stack"] = stk
		r.Violation("panic-in-parse", d)
		return false
	}
	if err != nil {
		if key := c01Known(gc, err.Error()); key != "" && r.Known(key, gc.Text) {
			return false
		}
		r.Violation("grammatical-statement-rejected", det(err.Error()))
		return false
	}
	want, got := dumpOf(gc.Want), dumpOf(st)
	if want != got {
		r.Violation("ast-differs-from-denoted", det(astx.FirstDiff(want, got)))
		return false
	}
	local["ast-equal"]++
	// ParseStatement must build the same statement (it does not look at what follows)
	var st2 influxql.Statement
	var err2 error
	if p, pv, stk := mon.Try(func() { st2, err2 = influxql.ParseStatement(gc.Text) }); p {
		d := det(fmt.Sprint(pv))
		d["stack"] = stk
		r.Violation("panic-in-ParseStatement", d)
		return false
	}
	if err2 != nil || dumpOf(st2) != want {
		r.Violation("ParseStatement-differs", det(fmt.Sprintf("ParseStatement: err=%v, %s", err2, astx.FirstDiff(want, dumpOf(st2)))))
		return false
	}
	local["ParseStatement-equal"]++
	return true
}

// c01Expr generates one expression, renders it and compares ParseExpr's tree.
func c01Expr(c *Ctx, idx int, local map[string]int64) {
	r := c.R
	rg := mon.NewRng(c.Seed, "c01.expr", idx)
	g := gen.New(rg, gen.Opts{Hostile: idx%4 == 0, MaxDepth: 2 + idx%3})
	ctx := gen.CtxCond
	if idx%3 == 0 {
		ctx = gen.CtxField
	}
	want := g.Tree(ctx, g.Opt.MaxDepth)
	g.Emit(want)
	text, _ := gen.Render(g.B.Toks, gen.Layout{Rg: rg})
	det := func(why string) map[string]interface{} {
		return map[string]interface{}{"sub": "expr", "idx": idx, "input": text, "why": why}
	}
	var got influxql.Expr
	var err error
	if p, pv, stk := mon.Try(func() { got, err = influxql.ParseExpr(text) }); p {
		d := det(fmt.Sprint(pv))
		d["stack"] = stk
		r.Violation("panic-in-ParseExpr", d)
		return
	}
	r.Eval(1)
	r.DistinctStr("expr|" + text)
	local["expressions"]++
	if err != nil {
		r.Violation("grammatical-expression-rejected", det(err.Error()))
		return
	}
	if a, b := dumpOf(want), dumpOf(got); a != b {
		r.Violation("expression-ast-differs", det(astx.FirstDiff(a, b)))
		return
	}
	local["expr-equal"]++
	mergeFeat(local, g.Feat)
}

// c01Known recognises known C01 deviations by their precise shape.
func c01Known(gc *GCase, errText string) string {
	return ""
}

func checkC01(c *Ctx) (string, bool, []string) {
	r := c.R
	rule := "AST-first generation: for each of the 44 statement kinds every subset of its optional clauses with minimal payloads (exhaustive), rendered in two layouts; plus random payloads (names of 1-3 segments, regex sources, back-references, subqueries, casts, wildcards, calls, all operators, every literal kind incl. boundary integers, signed operands) in random spellings (keyword case, quoting, escapes, number and duration spellings, whitespace kinds). Each text goes through ParseQuery and ParseStatement, and stand-alone generated expressions through ParseExpr; every result is compared structurally with the intended AST. Non-trivial = at least one optional clause present or an expression with an operator; distinct by text."
	assume := []string{"the generator's model of the grammar (README plus parser extensions listed in DESIGN.md section 2)", "structural equality = astx canonical dump"}
	if c.Replay != nil {
		opt := gen.Opts{}
		sub := replayStr(c, "sub")
		layout := "random"
		switch sub {
		case "subset-min":
			opt.Simple = true
			layout = "minimal"
		case "subset-rand":
			opt.Simple = true
		case "random-hostile":
			opt.Hostile = true
		}
		if sub == "expr" {
			c01Expr(c, replayInt(c, "idx"), map[string]int64{})
			return rule, false, assume
		}
		kind := replayInt(c, "kind_index")
		mask := replayInt(c, "mask")
		if strings.HasPrefix(sub, "random") {
			kind, mask = -1, -1
		}
		gc := genCase(c.Seed, replayStr(c, "label"), replayInt(c, "idx"), kind, mask, opt, layout)
		c01One(c, gc, sub, map[string]int64{})
		return rule, false, assume
	}
	// 1. exhaustive clause subsets
	type job struct{ kind, mask int }
	var jobs []job
	for k, kd := range gen.Kinds {
		for m := 0; m < 1<<uint(len(kd.Clauses)); m++ {
			jobs = append(jobs, job{k, m})
		}
	}
	mon.Parallel(len(jobs), c.Workers, func(i int) {
		local := map[string]int64{}
		j := jobs[i]
		gc := genCase(c.Seed, "c01.subset", i, j.kind, j.mask, gen.Opts{Simple: true}, "minimal")
		c01One(c, gc, "subset-min", local)
		gc2 := genCase(c.Seed, "c01.subset", i, j.kind, j.mask, gen.Opts{Simple: true}, "random")
		c01One(c, gc2, "subset-rand", local)
		if j.mask != 0 {
			r.DistinctStr(gc.Text)
			r.DistinctStr(gc2.Text)
		}
		local["subset.kind."+gen.Kinds[j.kind].Name]++
		mergeFeat(local, gc.G.Feat)
		if i%1500 == 1 {
			r.Sample(map[string]string{"kind": gen.Kinds[j.kind].Name, "text": gc2.Text})
		}
		r.MergeCounts(local)
	})
	r.Count("subset.cases", int64(len(jobs)))
	// 2. random payloads
	nrand := c.N(40000, 1500000)
	mon.Parallel(nrand, c.Workers, func(i int) {
		local := map[string]int64{}
		opt := gen.Opts{}
		sub := "random"
		if i%10 < 3 {
			opt.Hostile = true
			sub = "random-hostile"
		}
		gc := genCase(c.Seed, "c01.rand", i, -1, -1, opt, "random")
		c01One(c, gc, sub, local)
		r.DistinctStr(gc.Text)
		mergeFeat(local, gc.G.Feat)
		if i < 6 {
			r.Sample(map[string]string{"kind": gen.Kinds[gc.Kind].Name, "text": gc.Text})
		}
		r.MergeCounts(local)
	})
	nexpr := c.N(30000, 1000000)
	mon.Parallel(nexpr, c.Workers, func(i int) {
		local := map[string]int64{}
		c01Expr(c, i, local)
		r.MergeCounts(local)
	})
	r.Require(r.Counter("expr-equal") > 0 && r.Counter("ParseStatement-equal") > 0, "ParseExpr / ParseStatement never compared")
	for _, kd := range gen.Kinds {
		r.Require(r.Counter("kind."+kd.Name) > 0, "statement kind "+kd.Name+" never generated")
		for _, cl := range kd.Clauses {
			r.Require(r.Counter("clause."+kd.Name+"."+cl+".on") > 0 && r.Counter("clause."+kd.Name+"."+cl+".off") > 0, "clause "+kd.Name+"."+cl+" not seen both present and absent")
		}
	}
	for _, f := range []string{"op.+", "op.-", "op.*", "op./", "op.%", "op.&", "op.|", "op.^", "op.AND", "op.OR", "op.=", "op.!=", "op.<", "op.<=", "op.>", "op.>=", "op.=~", "op.!~",
		"lit.integer", "lit.number", "lit.string", "lit.boolean", "lit.duration", "lit.unsigned", "lit.regex", "neg-atom", "source.subquery", "field.wildcard", "field.regex", "field.distinct", "dim.time", "dim.wildcard", "dim.regex",
		"cast.float", "cast.integer", "cast.unsigned", "cast.string", "cast.boolean", "cast.field", "cast.tag", "name.hostile", "ref.empty-middle-segment"} {
		r.Require(r.Counter(f) > 0, "feature "+f+" never generated")
	}
	for f := 0; f < 8; f++ {
		r.Require(r.Counter(fmt.Sprintf("source.form.%d", f)) > 0, fmt.Sprintf("source form %d never generated", f))
	}
	for f := 0; f < 7; f++ {
		r.Require(r.Counter(fmt.Sprintf("target.form.%d", f)) > 0, fmt.Sprintf("target form %d never generated", f))
	}
	r.Require(r.Counter("ast-equal") > 0, "no statement parsed to its intended AST")
	return rule, false, assume
}

func mergeFeat(local map[string]int64, feat map[string]int) {
	for k, v := range feat {
		local[k] += int64(v)
	}
}
