package checks

import (
	"errors"
	"fmt"
	"strings"
	"time"

	"github.com/influxdata/influxql"
	"verifharness/mon"
)

// testMapper is a FieldMapper / TypeMapper / CallTypeMapper over a fixed
// schema; measurements whose name is not in the schema are empty.
type testMapper struct {
	fields map[string]map[string]influxql.DataType // measurement -> field -> type ("" = any measurement)
	tags   map[string][]string
	fail   bool
	// nilEmpty: an empty field or tag-key set is handed out as a nil map (the
	// usual Go spelling of "none"), not as an allocated empty one
	nilEmpty bool
	// tagSets caches the tag-key sets handed out by cachingMapper
	tagSets map[string]map[string]struct{}
}

func (m *testMapper) FieldDimensions(mm *influxql.Measurement) (map[string]influxql.DataType, map[string]struct{}, error) {
	if m.fail {
		return nil, nil, errors.New("mapper: schema unavailable")
	}
	f := map[string]influxql.DataType{}
	d := map[string]struct{}{}
	for _, key := range []string{mm.Name, ""} {
		for k, v := range m.fields[key] {
			f[k] = v
		}
		for _, t := range m.tags[key] {
			d[t] = struct{}{}
		}
	}
	if m.nilEmpty {
		if len(f) == 0 {
			f = nil
		}
		if len(d) == 0 {
			d = nil
		}
	}
	return f, d, nil
}

// perMeasurementMapper gives every measurement named in the statement (at any
// subquery depth) a schema of its own: fields only, tag keys only, both, or
// nothing; empty sets are nil maps for half of the mappers. Wildcard
// expansion over several sources then merges sets of every emptiness, in
// every source order.
func perMeasurementMapper(rg *mon.Rng, sel *influxql.SelectStatement) *testMapper {
	m := &testMapper{fields: map[string]map[string]influxql.DataType{}, tags: map[string][]string{}, nilEmpty: rg.Intn(2) == 0}
	names := refNames(sel)
	influxql.WalkFunc(sel, func(n influxql.Node) {
		mm, ok := n.(*influxql.Measurement)
		if !ok || mm.Name == "" {
			return
		}
		if _, seen := m.fields[mm.Name]; seen {
			return
		}
		m.fields[mm.Name] = map[string]influxql.DataType{}
		shape := rg.Intn(4)
		if shape == 0 || shape == 2 {
			m.fields[mm.Name]["pf"+mm.Name] = allTypes[rg.Intn(len(allTypes))]
			for _, nm := range names {
				if rg.Intn(2) == 0 {
					m.fields[mm.Name][nm] = allTypes[rg.Intn(len(allTypes))]
				}
			}
		}
		if shape == 1 || shape == 2 {
			m.tags[mm.Name] = append(m.tags[mm.Name], "pt"+mm.Name)
			for _, nm := range names {
				if rg.Intn(3) == 0 {
					m.tags[mm.Name] = append(m.tags[mm.Name], nm)
				}
			}
		}
	})
	return m
}

func (m *testMapper) MapType(mm *influxql.Measurement, field string) influxql.DataType {
	for _, key := range []string{mm.Name, ""} {
		if t, ok := m.fields[key][field]; ok {
			return t
		}
		for _, tg := range m.tags[key] {
			if tg == field {
				return influxql.Tag
			}
		}
	}
	return influxql.Unknown
}

func (m *testMapper) CallType(name string, args []influxql.DataType) (influxql.DataType, error) {
	switch name {
	case "count":
		return influxql.Integer, nil
	case "mean", "percentile", "derivative":
		return influxql.Float, nil
	case "bad":
		return influxql.Unknown, errors.New("mapper: bad call")
	}
	if len(args) > 0 {
		return args[0], nil
	}
	return influxql.Unknown, nil
}

// refNames lists the reference names used anywhere in a node.
func refNames(n influxql.Node) []string {
	seen := map[string]bool{}
	var out []string
	influxql.WalkFunc(n, func(n influxql.Node) {
		if v, ok := n.(*influxql.VarRef); ok && !seen[v.Val] {
			seen[v.Val] = true
			out = append(out, v.Val)
		}
	})
	return out
}

var allTypes = []influxql.DataType{influxql.Float, influxql.Integer, influxql.Unsigned, influxql.String, influxql.Boolean}

// randomMapper builds a schema that knows some of the statement's names.
func randomMapper(rg *mon.Rng, names []string) *testMapper {
	m := &testMapper{fields: map[string]map[string]influxql.DataType{"": {}}, tags: map[string][]string{}}
	for _, n := range names {
		switch rg.Intn(4) {
		case 0, 1:
			m.fields[""][n] = allTypes[rg.Intn(len(allTypes))]
		case 2:
			m.tags[""] = append(m.tags[""], n)
		}
	}
	for i := 0; i < rg.Intn(4); i++ {
		m.fields[""][fmt.Sprintf("extra%d", i)] = allTypes[rg.Intn(len(allTypes))]
		m.tags[""] = append(m.tags[""], fmt.Sprintf("xtag%d", i))
	}
	return m
}

func randomPoint(rg *mon.Rng, names []string) map[string]interface{} {
	p := map[string]interface{}{}
	for _, n := range names {
		switch rg.Intn(7) {
		case 0:
			p[n] = int64(rg.Intn(100) - 50)
		case 1:
			p[n] = rg.Float64() * 100
		case 2:
			p[n] = rg.Pick("a", "server01", "", "us-west")
		case 3:
			p[n] = rg.Bool()
		case 4:
			p[n] = uint64(rg.Intn(100))
		case 5:
			p[n] = nil
		}
	}
	p["time"] = int64(946684800000000000)
	return p
}

// stmtCond / stmtDims / stmtSources extract the common clauses of any statement.
func stmtParts(st influxql.Statement) (cond influxql.Expr, dims influxql.Dimensions, src influxql.Sources, sel *influxql.SelectStatement) {
	switch s := st.(type) {
	case *influxql.SelectStatement:
		return s.Condition, s.Dimensions, s.Sources, s
	case *influxql.ExplainStatement:
		return s.Statement.Condition, s.Statement.Dimensions, s.Statement.Sources, s.Statement
	case *influxql.CreateContinuousQueryStatement:
		return s.Source.Condition, s.Source.Dimensions, s.Source.Sources, s.Source
	case *influxql.DeleteSeriesStatement:
		return s.Condition, nil, s.Sources, nil
	case *influxql.DropSeriesStatement:
		return s.Condition, nil, s.Sources, nil
	case *influxql.ShowSeriesStatement:
		return s.Condition, nil, s.Sources, nil
	case *influxql.ShowMeasurementsStatement:
		return s.Condition, nil, nil, nil
	case *influxql.ShowTagKeysStatement:
		return s.Condition, nil, s.Sources, nil
	case *influxql.ShowTagValuesStatement:
		return s.Condition, nil, s.Sources, nil
	case *influxql.ShowFieldKeysStatement:
		return nil, nil, s.Sources, nil
	case *influxql.ShowSeriesCardinalityStatement:
		return s.Condition, s.Dimensions, s.Sources, nil
	case *influxql.ShowMeasurementCardinalityStatement:
		return s.Condition, s.Dimensions, s.Sources, nil
	case *influxql.ShowTagKeyCardinalityStatement:
		return s.Condition, s.Dimensions, s.Sources, nil
	case *influxql.ShowFieldKeyCardinalityStatement:
		return s.Condition, s.Dimensions, s.Sources, nil
	case *influxql.ShowTagValuesCardinalityStatement:
		return s.Condition, s.Dimensions, s.Sources, nil
	}
	return nil, nil, nil, nil
}

type identityRewriter struct{}

func (identityRewriter) Rewrite(n influxql.Node) influxql.Node { return n }

// Op is one public operation on a parsed statement. mutates says whether it
// changes its receiver (such operations are excluded from shared-AST use).
type Op struct {
	Name    string
	Mutates bool
	Run     func(st influxql.Statement, rg *mon.Rng) interface{}
}

var fixedNow = time.Date(2021, 3, 14, 1, 59, 26, 535897932, time.UTC)

// Ops lists the public operations of the property statements C13 / C14 / C17.
var Ops = []Op{
	{"String", false, func(st influxql.Statement, rg *mon.Rng) interface{} { return st.String() }},
	{"RequiredPrivileges", false, func(st influxql.Statement, rg *mon.Rng) interface{} {
		p, err := st.RequiredPrivileges()
		return fmt.Sprint(p, err)
	}},
	{"DefaultDatabase", false, func(st influxql.Statement, rg *mon.Rng) interface{} {
		if d, ok := st.(influxql.HasDefaultDatabase); ok {
			return d.DefaultDatabase()
		}
		return nil
	}},
	{"WalkFunc", false, func(st influxql.Statement, rg *mon.Rng) interface{} {
		n := 0
		influxql.WalkFunc(st, func(influxql.Node) { n++ })
		return n
	}},
	{"Rewrite(identity)", true, func(st influxql.Statement, rg *mon.Rng) interface{} {
		return influxql.Rewrite(identityRewriter{}, st).String()
	}},
	{"Clone", false, func(st influxql.Statement, rg *mon.Rng) interface{} {
		_, _, _, sel := stmtParts(st)
		if sel == nil {
			return nil
		}
		return sel.Clone().String()
	}},
	{"RewriteExpr(identity)", true, func(st influxql.Statement, rg *mon.Rng) interface{} {
		cond, _, _, sel := stmtParts(st)
		out := ""
		if cond != nil {
			out += influxql.RewriteExpr(cond, func(e influxql.Expr) influxql.Expr { return e }).String()
		}
		if sel != nil {
			for _, f := range sel.Fields {
				if e := influxql.RewriteExpr(f.Expr, func(e influxql.Expr) influxql.Expr { return e }); e != nil {
					out += e.String()
				}
			}
		}
		return out
	}},
	{"RewriteRegexConditions", true, func(st influxql.Statement, rg *mon.Rng) interface{} {
		_, _, _, sel := stmtParts(st)
		if sel == nil {
			return nil
		}
		sel.RewriteRegexConditions()
		return sel.String()
	}},
	{"RewriteDistinct", true, func(st influxql.Statement, rg *mon.Rng) interface{} {
		_, _, _, sel := stmtParts(st)
		if sel == nil {
			return nil
		}
		sel.RewriteDistinct()
		return sel.String()
	}},
	{"RewriteTimeFields", true, func(st influxql.Statement, rg *mon.Rng) interface{} {
		_, _, _, sel := stmtParts(st)
		if sel == nil {
			return nil
		}
		sel.RewriteTimeFields()
		return sel.String()
	}},
	{"RewriteFields", false, func(st influxql.Statement, rg *mon.Rng) interface{} {
		_, _, _, sel := stmtParts(st)
		if sel == nil {
			return nil
		}
		var m *testMapper
		switch rg.Intn(6) {
		case 0:
			m = &testMapper{}
		case 1:
			m = &testMapper{fail: true}
		case 2, 3:
			m = perMeasurementMapper(rg, sel)
		default:
			m = randomMapper(rg, refNames(sel))
		}
		// the exported merge of the sources' schemas, then the expansion
		ff, dd, ferr := influxql.FieldDimensions(sel.Sources, m)
		o, err := sel.RewriteFields(m)
		if err != nil {
			return fmt.Sprint(len(ff), len(dd), ferr) + err.Error()
		}
		return fmt.Sprint(len(ff), len(dd), ferr) + o.String()
	}},
	{"SelectStatement.Reduce", false, func(st influxql.Statement, rg *mon.Rng) interface{} {
		_, _, _, sel := stmtParts(st)
		if sel == nil {
			return nil
		}
		return sel.Reduce(pickValuer(rg)).String()
	}},
	{"Reduce(exprs)", false, func(st influxql.Statement, rg *mon.Rng) interface{} {
		cond, dims, _, sel := stmtParts(st)
		v := pickValuer(rg)
		out := ""
		if cond != nil {
			out += fmt.Sprint(influxql.Reduce(cond, v))
		}
		for _, d := range dims {
			out += fmt.Sprint(influxql.Reduce(d.Expr, v))
		}
		if sel != nil {
			for _, f := range sel.Fields {
				out += fmt.Sprint(influxql.Reduce(f.Expr, v))
			}
		}
		return out
	}},
	{"ConditionExpr", false, func(st influxql.Statement, rg *mon.Rng) interface{} {
		cond, _, _, _ := stmtParts(st)
		e, tr, err := influxql.ConditionExpr(cond, pickValuer(rg))
		return fmt.Sprint(e, tr.MinTime().UnixNano(), tr.MaxTime().UnixNano(), tr.MinTimeNano(), tr.MaxTimeNano(), err)
	}},
	{"Eval", false, func(st influxql.Statement, rg *mon.Rng) interface{} {
		cond, _, _, sel := stmtParts(st)
		pt := randomPoint(rg, refNames(st))
		out := fmt.Sprint(influxql.Eval(cond, pt), influxql.EvalBool(cond, pt))
		ev := influxql.ValuerEval{Valuer: influxql.MultiValuer(influxql.MapValuer(pt), &influxql.NowValuer{Now: fixedNow}), IntegerFloatDivision: true}
		out += fmt.Sprint(ev.Eval(cond), ev.EvalBool(cond))
		// and with every reference bound to a string (regex tests then run)
		strs := map[string]interface{}{}
		for _, n := range refNames(st) {
			strs[n] = "a"
		}
		out += fmt.Sprint(influxql.EvalBool(cond, strs))
		if sel != nil {
			for _, f := range sel.Fields {
				out += fmt.Sprint(ev.Eval(f.Expr))
			}
		}
		return out
	}},
	{"EvalType", false, func(st influxql.Statement, rg *mon.Rng) interface{} {
		cond, _, src, sel := stmtParts(st)
		m := randomMapper(rg, refNames(st))
		out := ""
		if sel != nil {
			for _, f := range sel.Fields {
				out += influxql.EvalType(f.Expr, src, m).String()
				tv := influxql.TypeValuerEval{TypeMapper: m, Sources: src}
				t, err := tv.EvalType(f.Expr)
				out += fmt.Sprint(t, err)
			}
		}
		if cond != nil {
			out += influxql.EvalType(cond, src, nil).String()
		}
		return out
	}},
	{"GroupByInterval", true, func(st influxql.Statement, rg *mon.Rng) interface{} {
		_, _, _, sel := stmtParts(st)
		if sel == nil {
			return nil
		}
		d, err := sel.GroupByInterval()
		return fmt.Sprint(d, err)
	}},
	{"GroupByOffset", true, func(st influxql.Statement, rg *mon.Rng) interface{} {
		_, _, _, sel := stmtParts(st)
		if sel == nil {
			return nil
		}
		d, err := sel.GroupByOffset()
		return fmt.Sprint(d, err)
	}},
	{"Dimensions.Normalize", false, func(st influxql.Statement, rg *mon.Rng) interface{} {
		_, dims, _, _ := stmtParts(st)
		d, tags := dims.Normalize()
		return fmt.Sprint(d, tags)
	}},
	{"ColumnNames", false, func(st influxql.Statement, rg *mon.Rng) interface{} {
		_, _, _, sel := stmtParts(st)
		if sel == nil {
			return nil
		}
		return fmt.Sprint(sel.ColumnNames())
	}},
	{"FieldNames", false, func(st influxql.Statement, rg *mon.Rng) interface{} {
		_, _, _, sel := stmtParts(st)
		if sel == nil {
			return nil
		}
		out := fmt.Sprint(sel.Fields.Names(), sel.Fields.AliasNames(), sel.TimeAscending(), sel.TimeFieldName())
		for _, n := range append(refNames(sel.Fields), "time", "nosuch") {
			i, e := sel.FieldExprByName(n)
			out += fmt.Sprint(i, e)
		}
		for _, f := range sel.Fields {
			out += f.Name() + f.String()
			if b, ok := f.Expr.(*influxql.BinaryExpr); ok {
				out += influxql.BinaryExprName(b)
			}
			out += fmt.Sprint(influxql.IsSelector(f.Expr), influxql.ContainsVarRef(f.Expr), influxql.ExprNames(f.Expr))
		}
		return out
	}},
	{"HasWildcard", false, func(st influxql.Statement, rg *mon.Rng) interface{} {
		_, _, _, sel := stmtParts(st)
		if sel == nil {
			return nil
		}
		return fmt.Sprint(sel.HasWildcard(), sel.HasFieldWildcard(), sel.HasDimensionWildcard())
	}},
	{"SetTimeRange", true, func(st influxql.Statement, rg *mon.Rng) interface{} {
		_, _, _, sel := stmtParts(st)
		if sel == nil {
			return nil
		}
		err := sel.SetTimeRange(fixedNow.Add(-time.Hour), fixedNow)
		return fmt.Sprint(err, sel.Condition)
	}},
	{"Sources.Measurements", false, func(st influxql.Statement, rg *mon.Rng) interface{} {
		_, _, src, _ := stmtParts(st)
		out := ""
		for _, m := range src.Measurements() {
			out += m.String() + m.Clone().String()
		}
		p, err := src.RequiredPrivileges()
		return out + src.String() + fmt.Sprint(p, err)
	}},
	{"ExprHelpers", false, func(st influxql.Statement, rg *mon.Rng) interface{} {
		cond, _, _, _ := stmtParts(st)
		if cond == nil {
			return nil
		}
		out := fmt.Sprint(influxql.HasTimeExpr(cond), influxql.ContainsVarRef(cond), influxql.ExprNames(cond), len(influxql.ConjunctionsToExprSlice(cond)))
		a, b, err := influxql.PartitionExpr(influxql.CloneExpr(cond), func(e influxql.Expr) (bool, error) { return influxql.HasTimeExpr(e), nil })
		out += fmt.Sprint(a, b, err)
		out += influxql.CloneExpr(cond).String()
		return out
	}},
}

func init() {
	// two-step sequences: an operation applied to the result of another one
	Ops = append(Ops,
		Op{"Reduce;GroupByOffset;ColumnNames", false, func(st influxql.Statement, rg *mon.Rng) interface{} {
			_, _, _, sel := stmtParts(st)
			if sel == nil {
				return nil
			}
			red := sel.Reduce(&influxql.NowValuer{Now: fixedNow})
			d, err := red.GroupByOffset()
			d2, tags := red.Dimensions.Normalize()
			return fmt.Sprint(d, err, d2, tags, red.ColumnNames(), red.String())
		}},
		Op{"RewriteFields;ColumnNames;Reduce", false, func(st influxql.Statement, rg *mon.Rng) interface{} {
			_, _, _, sel := stmtParts(st)
			if sel == nil {
				return nil
			}
			o, err := sel.RewriteFields(randomMapper(rg, refNames(sel)))
			if err != nil {
				return err.Error()
			}
			p, _ := o.RequiredPrivileges()
			return fmt.Sprint(o.ColumnNames(), o.Reduce(pickValuer(rg)).String(), p)
		}},
		Op{"Clone;RewriteRegexConditions;ConditionExpr", false, func(st influxql.Statement, rg *mon.Rng) interface{} {
			_, _, _, sel := stmtParts(st)
			if sel == nil {
				return nil
			}
			cl := sel.Clone()
			cl.RewriteRegexConditions()
			cl.RewriteDistinct()
			e, tr, err := influxql.ConditionExpr(cl.Condition, &influxql.NowValuer{Now: fixedNow})
			return fmt.Sprint(e, tr, err, cl.String())
		}},
	)
}

// seqSteps are the steps of a random walk over a statement and the statements
// derived from it: each step either queries or rewrites the current statement,
// or replaces it by a statement derived from it.
var seqSteps = []struct {
	name string
	run  func(cur *influxql.SelectStatement, rg *mon.Rng) (*influxql.SelectStatement, string)
}{
	{"GroupByInterval", func(s *influxql.SelectStatement, rg *mon.Rng) (*influxql.SelectStatement, string) {
		d, err := s.GroupByInterval()
		return s, fmt.Sprint(d, err)
	}},
	{"GroupByOffset", func(s *influxql.SelectStatement, rg *mon.Rng) (*influxql.SelectStatement, string) {
		d, err := s.GroupByOffset()
		return s, fmt.Sprint(d, err)
	}},
	{"ColumnNames", func(s *influxql.SelectStatement, rg *mon.Rng) (*influxql.SelectStatement, string) {
		return s, fmt.Sprint(s.ColumnNames(), s.TimeFieldName())
	}},
	{"String", func(s *influxql.SelectStatement, rg *mon.Rng) (*influxql.SelectStatement, string) {
		return s, s.String()
	}},
	{"RequiredPrivileges", func(s *influxql.SelectStatement, rg *mon.Rng) (*influxql.SelectStatement, string) {
		p, err := s.RequiredPrivileges()
		return s, fmt.Sprint(p, err)
	}},
	{"Normalize", func(s *influxql.SelectStatement, rg *mon.Rng) (*influxql.SelectStatement, string) {
		d, tags := s.Dimensions.Normalize()
		return s, fmt.Sprint(d, tags)
	}},
	{"Clone", func(s *influxql.SelectStatement, rg *mon.Rng) (*influxql.SelectStatement, string) {
		return s.Clone(), ""
	}},
	{"Reduce", func(s *influxql.SelectStatement, rg *mon.Rng) (*influxql.SelectStatement, string) {
		return s.Reduce(pickValuer(rg)), ""
	}},
	{"RewriteFields", func(s *influxql.SelectStatement, rg *mon.Rng) (*influxql.SelectStatement, string) {
		m := randomMapper(rg, refNames(s))
		switch rg.Intn(6) {
		case 0:
			m.tags = map[string][]string{} // a schema without tag keys
		case 1:
			m = &testMapper{} // an empty schema
		case 2, 3:
			m = perMeasurementMapper(rg, s) // a schema per measurement, empty sets as nil maps
		}
		o, err := s.RewriteFields(m)
		if err != nil || o == nil {
			return s, fmt.Sprint(err)
		}
		return o, ""
	}},
	{"RewriteTimeFields", func(s *influxql.SelectStatement, rg *mon.Rng) (*influxql.SelectStatement, string) {
		s.RewriteTimeFields()
		return s, ""
	}},
	{"RewriteDistinct", func(s *influxql.SelectStatement, rg *mon.Rng) (*influxql.SelectStatement, string) {
		s.RewriteDistinct()
		return s, ""
	}},
	{"RewriteRegexConditions", func(s *influxql.SelectStatement, rg *mon.Rng) (*influxql.SelectStatement, string) {
		s.RewriteRegexConditions()
		return s, ""
	}},
	{"SetTimeRange", func(s *influxql.SelectStatement, rg *mon.Rng) (*influxql.SelectStatement, string) {
		err := s.SetTimeRange(fixedNow.Add(-time.Duration(rg.Intn(5)+1)*time.Hour), fixedNow)
		return s, fmt.Sprint(err)
	}},
	{"ConditionExpr", func(s *influxql.SelectStatement, rg *mon.Rng) (*influxql.SelectStatement, string) {
		e, tr, err := influxql.ConditionExpr(s.Condition, pickValuer(rg))
		return s, fmt.Sprint(e, tr, err)
	}},
	{"Eval", func(s *influxql.SelectStatement, rg *mon.Rng) (*influxql.SelectStatement, string) {
		ev := influxql.ValuerEval{Valuer: influxql.MultiValuer(influxql.MapValuer(randomPoint(rg, refNames(s))), &influxql.NowValuer{Now: fixedNow}), IntegerFloatDivision: true}
		out := fmt.Sprint(ev.Eval(s.Condition))
		for _, f := range s.Fields {
			out += fmt.Sprint(ev.Eval(f.Expr))
		}
		return s, out
	}},
}

func init() {
	Ops = append(Ops, Op{"RandomSequence", true, func(st influxql.Statement, rg *mon.Rng) interface{} {
		_, _, _, sel := stmtParts(st)
		if sel == nil {
			return nil
		}
		cur := sel
		var out strings.Builder
		for k, n := 0, 3+rg.Intn(5); k < n; k++ {
			step := seqSteps[rg.Intn(len(seqSteps))]
			out.WriteString(step.name + ";")
			var res string
			cur, res = step.run(cur, rg)
			out.WriteString(res + "|")
		}
		return out.String()
	}})
}

func pickValuer(rg *mon.Rng) influxql.Valuer {
	switch rg.Intn(4) {
	case 0:
		return nil
	case 1:
		return &influxql.NowValuer{Now: fixedNow}
	case 2:
		loc, _ := time.LoadLocation("America/New_York")
		return &influxql.NowValuer{Now: fixedNow, Location: loc}
	}
	return influxql.MultiValuer(&influxql.NowValuer{Now: fixedNow}, influxql.MapValuer{"f1": int64(1), "x": 2.5})
}
