package checks

import (
	"fmt"
	"reflect"
	"strings"

	"github.com/influxdata/influxql"
	"verifharness/gen"
	"verifharness/mon"
)

// C19 — required privileges cover everything a statement touches.
//
// Oracle: the generator knows the database of every measurement it put into
// the statement at any depth, and the INTO target's database.

func init() { Registry["C19"] = checkC19 }

var c19admin = map[string]bool{
	"CreateUser": true, "DropUser": true, "Grant": true, "GrantAdmin": true, "Revoke": true, "RevokeAdmin": true, "SetPassword": true,
	"ShowGrantsForUser": true, "ShowUsers": true, "CreateDatabase": true, "DropDatabase": true, "CreateRetentionPolicy": true, "AlterRetentionPolicy": true,
	"CreateSubscription": true, "DropSubscription": true, "ShowSubscriptions": true, "DropShard": true, "DropMeasurement": true, "KillQuery": true,
	"ShowShards": true, "ShowShardGroups": true, "ShowStats": true, "ShowDiagnostics": true,
}

// readDBs collects the database of every measurement at any depth.
func readDBs(src influxql.Sources, out *[]string) {
	for _, s := range src {
		switch s := s.(type) {
		case *influxql.Measurement:
			*out = append(*out, s.Database)
		case *influxql.SubQuery:
			readDBs(s.Statement.Sources, out)
		}
	}
}

// intoDBs collects the database of the INTO target of the statement and of
// every subquery at any depth.
func intoDBs(sel *influxql.SelectStatement, out *[]string) {
	if sel.Target != nil && sel.Target.Measurement != nil {
		*out = append(*out, sel.Target.Measurement.Database)
	}
	for _, s := range sel.Sources {
		if sq, ok := s.(*influxql.SubQuery); ok {
			intoDBs(sq.Statement, out)
		}
	}
}

func subqDepth(src influxql.Sources) int {
	d := 0
	for _, s := range src {
		if sq, ok := s.(*influxql.SubQuery); ok {
			if x := 1 + subqDepth(sq.Statement.Sources); x > d {
				d = x
			}
		}
	}
	return d
}

func c19One(c *Ctx, gc *GCase, sub string, local map[string]int64) {
	r := c.R
	kind := gen.Kinds[gc.Kind].Name
	det := func(why string) map[string]interface{} {
		return map[string]interface{}{"sub": sub, "label": gc.Label, "idx": gc.Idx, "kind": kind, "kind_index": gc.Kind, "mask": gc.Mask, "input": gc.Text, "why": why}
	}
	st, err, pan, _, _ := parseQuery1(gc.Text)
	if pan || err != nil {
		local["not-accepted(skipped)"]++
		return
	}
	var privs influxql.ExecutionPrivileges
	var perr error
	if p, pv, stk := mon.Try(func() { privs, perr = st.RequiredPrivileges() }); p {
		d := det(fmt.Sprint(pv))
		d["stack"] = stk
		r.Violation("panic-in-RequiredPrivileges", d)
		return
	}
	r.Eval(1)
	local["statements."+kind]++
	if perr != nil {
		r.Violation("privileges-error", det(perr.Error()))
		return
	}
	if len(privs) == 0 {
		if key := c19Known(gc.Want); key != "" && r.Known(key, gc.Text) {
			return
		}
		r.Violation("empty-privilege-list", det("RequiredPrivileges returned an empty list"))
		return
	}
	// the list belongs to the caller: overwriting it must not change what the
	// next call - on this or on another statement of the same kind - answers
	{
		firstAnswer := fmt.Sprintf("%+v", privs)
		scratch := privs
		privs = append(influxql.ExecutionPrivileges(nil), privs...)
		for i := range scratch {
			scratch[i] = influxql.ExecutionPrivilege{Admin: false, Name: "~overwritten~", Privilege: influxql.NoPrivileges}
		}
		var again, other influxql.ExecutionPrivileges
		mon.Try(func() {
			again, _ = st.RequiredPrivileges()
			if st2, err := influxql.ParseStatement(gc.Text); err == nil {
				other, _ = st2.RequiredPrivileges()
			}
		})
		if a, o := fmt.Sprintf("%+v", again), fmt.Sprintf("%+v", other); a != firstAnswer || o != firstAnswer {
			r.Violation("privileges-not-a-function-of-the-statement", det(fmt.Sprintf("first answer %s; after the caller overwrote the returned list the same statement answers %s and a fresh parse answers %s", firstAnswer, a, o)))
			return
		}
		// fail, repair, ask again: while a program is still building the
		// statement a source slot (at any depth) is empty and the call cannot
		// answer; once the same objects are complete it answers as before
		if mon.Hash64(gc.Text)%3 == 0 {
			var sels []*influxql.SelectStatement
			influxql.WalkFunc(st, func(n influxql.Node) {
				if s, ok := n.(*influxql.SelectStatement); ok && len(s.Sources) > 0 {
					sels = append(sels, s)
				}
			})
			if len(sels) > 0 {
				victim := sels[len(sels)-1]
				k := len(victim.Sources) - 1
				saved := victim.Sources[k]
				var repaired influxql.ExecutionPrivileges
				var rerr error
				for round := 0; round < 3; round++ {
					victim.Sources[k] = nil
					mon.Try(func() { _, _ = st.RequiredPrivileges() })
					victim.Sources[k] = saved
					mon.Try(func() { repaired, rerr = st.RequiredPrivileges() })
					if a := fmt.Sprintf("%+v", repaired); rerr != nil || a != firstAnswer {
						r.Violation("privileges-not-a-function-of-the-statement", det(fmt.Sprintf("first answer %s; a call made while a source slot was still empty failed, and after the slot was filled in again the statement answers %s (err %v)", firstAnswer, a, rerr)))
						return
					}
				}
				local["failed-call-then-repaired"]++
			}
		}
		local["answer-survives-caller-edit"]++
	}
	// a source list that is present but empty (built by a caller, or decoded)
	// is the same as no source list
	if rv := reflect.ValueOf(st); rv.Kind() == reflect.Ptr && rv.Elem().Kind() == reflect.Struct {
		if f := rv.Elem().FieldByName("Sources"); f.IsValid() && f.CanSet() && f.Type() == reflect.TypeOf(influxql.Sources(nil)) && f.Len() == 0 {
			for _, empty := range []influxql.Sources{{}, make(influxql.Sources, 0, 4)} {
				f.Set(reflect.ValueOf(empty))
				var pe influxql.ExecutionPrivileges
				var ee error
				mon.Try(func() { pe, ee = st.RequiredPrivileges() })
				if fmt.Sprintf("%+v %v", pe, ee) != fmt.Sprintf("%+v %v", privs, perr) {
					r.Violation("privileges-not-a-function-of-the-statement", det(fmt.Sprintf("with an empty (non-nil) source list the statement answers %+v (err %v); with no source list %+v", pe, ee, privs)))
					return
				}
			}
			f.Set(reflect.Zero(f.Type()))
			local["empty-source-list"]++
		}
	}
	if c19admin[kind] {
		adm := false
		for _, p := range privs {
			if p.Admin {
				adm = true
			}
		}
		if !adm {
			r.Violation("admin-statement-without-admin", det(fmt.Sprintf("privileges %+v carry no admin requirement", privs)))
			return
		}
		local["admin-checked"]++
	}
	var sel *influxql.SelectStatement
	switch w := gc.Want.(type) {
	case *influxql.SelectStatement:
		sel = w
	case *influxql.ExplainStatement:
		sel = w.Statement
	}
	if sel != nil {
		var dbs []string
		readDBs(sel.Sources, &dbs)
		for _, db := range dbs {
			ok := false
			for _, p := range privs {
				if p.Name == db && (p.Privilege == influxql.ReadPrivilege || p.Privilege == influxql.AllPrivileges) {
					ok = true
				}
			}
			if !ok {
				r.Violation("missing-read-privilege", det(fmt.Sprintf("no read privilege on database %q (subquery depth %d); got %+v", db, subqDepth(sel.Sources), privs)))
				return
			}
		}
		var wdbs []string
		intoDBs(sel, &wdbs)
		for wi, db := range wdbs {
			ok := false
			for _, p := range privs {
				if p.Name == db && (p.Privilege == influxql.WritePrivilege || p.Privilege == influxql.AllPrivileges) {
					ok = true
				}
			}
			if !ok {
				r.Violation("missing-write-privilege", det(fmt.Sprintf("no write privilege on INTO database %q (INTO clause %d of %d, outermost first); got %+v", db, wi+1, len(wdbs), privs)))
				return
			}
			local["into-checked"]++
			if wi > 0 || sel.Target == nil {
				local["into-checked.in-subquery"]++
			}
		}
		// the answer follows the statement: after the statement is edited in
		// place (every database renamed, a source and a target added) a second
		// call answers for the statement as it is now, like a fresh parse of
		// its printed form does
		if psel := parsedSelect(st); psel != nil {
			influxql.WalkFunc(psel, func(n influxql.Node) {
				if m, ok := n.(*influxql.Measurement); ok && m.Database != "" {
					m.Database += "_edited"
				}
			})
			psel.Sources = append(psel.Sources, &influxql.Measurement{Database: "added_db", Name: "added_m"})
			// what is read is decided by where a measurement stands, not by flags a
			// caller may have left on it (a source cloned from a target, a source
			// served by a system iterator)
			psel.Sources = append(psel.Sources, &influxql.Measurement{Database: "flagged_db", Name: "was_target", IsTarget: true}, &influxql.Measurement{Database: "system_db", Name: "_series", SystemIterator: "_series"})
			if psel.Target == nil {
				psel.Target = &influxql.Target{Measurement: &influxql.Measurement{Database: "added_target", Name: "t", IsTarget: true}}
			}
			var again influxql.ExecutionPrivileges
			var aerr error
			if p, pv, stk := mon.Try(func() { again, aerr = st.RequiredPrivileges() }); p {
				d := det(fmt.Sprint(pv))
				d["stack"] = stk
				r.Violation("panic-in-RequiredPrivileges", d)
				return
			}
			if re, perr := influxql.ParseStatement(st.String()); perr == nil {
				want, werr := re.RequiredPrivileges()
				if fmt.Sprint(again, aerr) != fmt.Sprint(want, werr) {
					r.Violation("privileges-not-a-function-of-the-statement", det(fmt.Sprintf("after editing the statement in place to %q, RequiredPrivileges answers %+v; the same statement parsed afresh answers %+v", trunc(st.String(), 300), again, want)))
					return
				}
				local["second-call-after-edit"]++
			}
		}
		// a regex source given as a bound parameter names the same databases as
		// the regex written out
		if re := regexSourceSlot(gc); re >= 0 {
			toks := append([]gen.Tok(nil), gc.G.B.Toks...)
			src := toks[re].Val
			toks[re].Text = "$re"
			tmpl, _ := gen.Render(toks, gen.Layout{Spaced: true})
			p := influxql.NewParser(strings.NewReader(tmpl))
			p.SetParams(map[string]interface{}{"re": map[string]interface{}{"regex": src}})
			var q *influxql.Query
			var perr2 error
			mon.Try(func() { q, perr2 = p.ParseQuery() })
			if perr2 == nil && q != nil && len(q.Statements) == 1 {
				bp, _ := q.Statements[0].RequiredPrivileges()
				if fmt.Sprintf("%+v", bp) != fmt.Sprintf("%+v", privs) {
					r.Violation("privileges-differ-for-bound-regex", det(fmt.Sprintf("template %q with re bound to /%s/ requires %+v; with the regex written out %+v", trunc(tmpl, 300), src, bp, privs)))
					return
				}
				local["bound-regex-source"]++
			}
		}
		local["select-checked"]++
		local[fmt.Sprintf("subquery-depth.%d", subqDepth(sel.Sources))]++
	}
	local["ok"]++
}

// regexSourceSlot finds a regex token that stands as a measurement (it follows
// FROM, a comma or a dot) in the generated token list, or -1.
func regexSourceSlot(gc *GCase) int {
	toks := gc.G.B.Toks
	for i := 1; i < len(toks); i++ {
		if toks[i].Name == "regex" && (toks[i-1].Text == "." || strings.EqualFold(toks[i-1].Text, "FROM")) {
			return i
		}
	}
	return -1
}

func parsedSelect(st influxql.Statement) *influxql.SelectStatement {
	switch w := st.(type) {
	case *influxql.SelectStatement:
		return w
	case *influxql.ExplainStatement:
		return w.Statement
	}
	return nil
}

// c19Many: statements with many sources whose INTO database is also one of
// the databases read (a write-back), bare, under EXPLAIN and inside a subquery.
func c19Many(c *Ctx, n, k int, local map[string]int64) {
	r := c.R
	var srcs []string
	for i := 0; i < n; i++ {
		srcs = append(srcs, fmt.Sprintf("db%d..m%d", i, i))
	}
	inner := fmt.Sprintf("SELECT v INTO db%d..out FROM %s", k, strings.Join(srcs, ", "))
	for _, text := range []string{inner, "EXPLAIN " + inner, "EXPLAIN ANALYZE " + inner, "SELECT v FROM (" + inner + "), other..m", "SELECT v INTO db0..top FROM (" + inner + ")"} {
		st, err := influxql.ParseStatement(text)
		if err != nil {
			r.Violation("privileges-error", map[string]interface{}{"sub": "many", "n": n, "k": k, "input": trunc(text, 200), "why": err.Error()})
			return
		}
		privs, _ := st.RequiredPrivileges()
		r.Eval(1)
		r.DistinctStr(fmt.Sprintf("many|%d|%d|%s", n, k, text[:12]))
		has := func(db string, want influxql.Privilege) bool {
			for _, p := range privs {
				if p.Name == db && (p.Privilege == want || p.Privilege == influxql.AllPrivileges) {
					return true
				}
			}
			return false
		}
		for i := 0; i < n; i++ {
			if !has(fmt.Sprintf("db%d", i), influxql.ReadPrivilege) {
				r.Violation("missing-read-privilege", map[string]interface{}{"sub": "many", "n": n, "k": k, "input": trunc(text, 200), "why": fmt.Sprintf("no read privilege on db%d among %d sources", i, n)})
				return
			}
		}
		if !has(fmt.Sprintf("db%d", k), influxql.WritePrivilege) {
			r.Violation("missing-write-privilege", map[string]interface{}{"sub": "many", "n": n, "k": k, "input": trunc(text, 200), "why": fmt.Sprintf("no write privilege on the INTO database db%d, which is also one of the %d databases read", k, n)})
			return
		}
		local["many-sources"]++
	}
}

// c19Known recognises the cardinality statements without FROM.
func c19Known(want influxql.Statement) string { return "" }

func checkC19(c *Ctx) (string, bool, []string) {
	r := c.R
	rule := "every clause subset of all 44 statement kinds (exhaustive, seed-independent in structure): RequiredPrivileges must return a non-empty list without error, with an admin entry for every administrative kind; SELECT and EXPLAIN [ANALYZE] [VERBOSE] SELECT with 1-3 sources of every form (m, rp.m, db.rp.m, db..m, regex forms, subqueries nested to depth 5) and every INTO form: a read privilege for the database of every measurement at any depth, a write privilege for the database of every INTO clause (the statement's and any subquery's); after the parsed statement is edited in place (databases renamed, a source and a target added) a second call must answer like a fresh parse of the printed statement. Non-trivial = statement has at least one database name or optional clause; distinct by text."
	assume := []string{"in half of the SELECT cases the generator gives every database slot of one statement a different name, so a missing entry cannot be masked by another source; in the other half databases come from a pool of three and subqueries may carry INTO clauses, so the same database is written and read at several depths in either order", "an empty database name stands for the default database and must be listed as such"}
	if c.Replay != nil {
		opt := gen.Opts{}
		kind, mask := replayInt(c, "kind_index"), replayInt(c, "mask")
		layout := "random"
		switch replayStr(c, "sub") {
		case "subset":
			opt.Simple = true
			layout = "minimal"
		case "select":
			opt = gen.Opts{SubqDepth: 5, SubqProb: 0.5, MaxDepth: 1}
			mask = -1
		case "many":
			c19Many(c, replayInt(c, "n"), replayInt(c, "k"), map[string]int64{})
			return rule, false, assume
		case "select-few-dbs":
			opt = gen.Opts{SubqDepth: 5, SubqProb: 0.5, MaxDepth: 1, FewDBs: true, SubqInto: 0.3}
			mask = -1
		case "select-odd-names":
			opt = gen.Opts{SubqDepth: 5, SubqProb: 0.5, MaxDepth: 1, Hostile: true}
			mask = -1
		}
		gc := genCase(c.Seed, replayStr(c, "label"), replayInt(c, "idx"), kind, mask, opt, layout)
		c19One(c, gc, replayStr(c, "sub"), map[string]int64{})
		return rule, false, assume
	}
	type job struct{ kind, mask int }
	var jobs []job
	for k, kd := range gen.Kinds {
		for m := 0; m < 1<<uint(len(kd.Clauses)); m++ {
			jobs = append(jobs, job{k, m})
		}
	}
	mon.Parallel(len(jobs), c.Workers, func(i int) {
		local := map[string]int64{}
		j := jobs[i]
		gc := genCase(c.Seed, "c19.subset", i, j.kind, j.mask, gen.Opts{Simple: true}, "minimal")
		c19One(c, gc, "subset", local)
		r.DistinctStr(gc.Text)
		r.MergeCounts(local)
	})
	n := c.N(20000, 500000)
	selKinds := []int{gen.KindIndex("Select"), gen.KindIndex("Explain")}
	mon.Parallel(n, c.Workers, func(i int) {
		local := map[string]int64{}
		// every other pair of cases draws its databases from a pool of three and
		// gives subqueries INTO clauses: one database is then written and read,
		// in either order, at several depths of the same statement
		opt := gen.Opts{SubqDepth: 5, SubqProb: 0.5, MaxDepth: 1}
		sub := "select"
		if i%4 >= 2 {
			opt.FewDBs, opt.SubqInto = true, 0.3
			sub = "select-few-dbs"
			local["few-dbs"]++
		} else if i%8 == 1 {
			// names that need quoting, empty names, names the storage engine
			// reserves for its system sources (_series, _fieldKeys, ...)
			opt.Hostile = true
			sub = "select-odd-names"
			local["odd-names"]++
		}
		gc := genCase(c.Seed, "c19.select", i, selKinds[i%2], -1, opt, "random")
		c19One(c, gc, sub, local)
		r.DistinctStr(gc.Text)
		if i < 4 {
			if st, err := influxql.ParseStatement(gc.Text); err == nil {
				p, _ := st.RequiredPrivileges()
				r.Sample(map[string]interface{}{"text": gc.Text, "privileges": fmt.Sprintf("%+v", p)})
			}
		}
		r.MergeCounts(local)
	})
	{
		local := map[string]int64{}
		for _, n := range []int{1, 2, 7, 15, 16, 17, 31, 32, 33, 40, 63, 64, 65, 100, 257, 1000} {
			for _, k := range []int{0, n / 2, n - 1} {
				c19Many(c, n, k, local)
			}
		}
		r.MergeCounts(local)
	}
	for _, kd := range gen.Kinds {
		r.Require(r.Counter("statements."+kd.Name) > 0, "kind "+kd.Name+" never checked")
	}
	r.Require(r.Counter("subquery-depth.3") > 0 && r.Counter("into-checked") > 0 && r.Counter("admin-checked") > 0, "depth / INTO / admin not covered")
	return rule, false, assume
}
