package checks

import (
	"encoding/json"
	"fmt"
	"math"
	"strconv"
	"time"

	"github.com/influxdata/influxql"
	"verifharness/mon"
)

// C09 — constant folding never changes the value of an expression.
//
// Oracle: the package's two independent implementations against each other
// (Reduce vs ValuerEval), plus absolute checks where the property is absolute
// (division / modulo by zero, time arithmetic).

// c09node is the harness's serialisable expression spec.
type c09node struct {
	Op    string   `json:"op,omitempty"` // binary operator token text, or "()" for parentheses
	L     *c09node `json:"l,omitempty"`
	R     *c09node `json:"r,omitempty"`
	Kind  string   `json:"kind,omitempty"`  // leaf: I U F B S
	Val   string   `json:"val,omitempty"`   // leaf value, textual
	Where string   `json:"where,omitempty"` // leaf: "lit", "reduce" (bound through Reduce), "eval" (bound at evaluation)
	Name  string   `json:"name,omitempty"`
	Cast  string   `json:"cast,omitempty"` // variable leaf: the ::type written behind the reference (one that agrees with the bound value)
}

var c09casts = map[string]influxql.DataType{"integer": influxql.Integer, "unsigned": influxql.Unsigned, "float": influxql.Float, "boolean": influxql.Boolean, "string": influxql.String, "tag": influxql.Tag, "field": influxql.AnyField}

var c09tok = map[string]influxql.Token{
	"+": influxql.ADD, "-": influxql.SUB, "*": influxql.MUL, "/": influxql.DIV, "%": influxql.MOD,
	"&": influxql.BITWISE_AND, "|": influxql.BITWISE_OR, "^": influxql.BITWISE_XOR,
	"AND": influxql.AND, "OR": influxql.OR, "=": influxql.EQ, "!=": influxql.NEQ,
	"<": influxql.LT, "<=": influxql.LTE, ">": influxql.GT, ">=": influxql.GTE,
}

func leafValue(n *c09node) interface{} {
	switch n.Kind {
	case "I":
		v, _ := strconv.ParseInt(n.Val, 10, 64)
		return v
	case "U":
		v, _ := strconv.ParseUint(n.Val, 10, 64)
		return v
	case "F":
		switch n.Val {
		case "NaN":
			return math.NaN()
		case "+Inf":
			return math.Inf(1)
		case "-Inf":
			return math.Inf(-1)
		case "-0":
			return math.Copysign(0, -1)
		}
		v, _ := strconv.ParseFloat(n.Val, 64)
		return v
	case "B":
		return n.Val == "true"
	case "S":
		return n.Val
	}
	panic("harness: bad leaf kind " + n.Kind)
}

// build makes the influxql AST; mode "spec" honours Where, mode "allvars"
// turns every leaf into a variable (the reference evaluation).
func (n *c09node) build(allvars bool, red, ev, all map[string]interface{}) influxql.Expr {
	if n.Op == "()" {
		return &influxql.ParenExpr{Expr: n.L.build(allvars, red, ev, all)}
	}
	if n.Op == "same" || n.Op == "first" {
		c := &influxql.Call{Name: n.Op, Args: []influxql.Expr{n.L.build(allvars, red, ev, all)}}
		if n.R != nil {
			c.Args = append(c.Args, n.R.build(allvars, red, ev, all))
		}
		return c
	}
	if n.Op != "" {
		return &influxql.BinaryExpr{Op: c09tok[n.Op], LHS: n.L.build(allvars, red, ev, all), RHS: n.R.build(allvars, red, ev, all)}
	}
	v := leafValue(n)
	all[n.Name] = v
	if allvars {
		return &influxql.VarRef{Val: n.Name}
	}
	switch n.Where {
	case "reduce":
		red[n.Name] = v
		return &influxql.VarRef{Val: n.Name, Type: c09casts[n.Cast]}
	case "eval":
		ev[n.Name] = v
		return &influxql.VarRef{Val: n.Name, Type: c09casts[n.Cast]}
	}
	switch x := v.(type) {
	case int64:
		return &influxql.IntegerLiteral{Val: x}
	case uint64:
		return &influxql.UnsignedLiteral{Val: x}
	case float64:
		return &influxql.NumberLiteral{Val: x}
	case bool:
		return &influxql.BooleanLiteral{Val: x}
	case string:
		return &influxql.StringLiteral{Val: x}
	}
	panic("harness: bad leaf")
}

func (n *c09node) hasReduceBoundUnsigned() bool {
	if n == nil {
		return false
	}
	if n.Op == "" {
		return n.Kind == "U" && n.Where == "reduce"
	}
	return n.L.hasReduceBoundUnsigned() || n.R.hasReduceBoundUnsigned()
}

// neutralised returns a copy in which reduce-bound unsigned variables are
// bound at evaluation instead (delta attribution of the known finding).
func (n *c09node) neutralised() *c09node {
	if n == nil {
		return nil
	}
	c := *n
	if c.Op == "" {
		if c.Kind == "U" && c.Where == "reduce" {
			c.Where = "eval"
		}
		return &c
	}
	c.L, c.R = n.L.neutralised(), n.R.neutralised()
	return &c
}

// c09Valuer is a MapValuer that also knows two pure functions: same(x) = x
// and first(x, y) = x. Reduce may fold a call once all its arguments are
// literals; the value must be the one the evaluator computes.
type c09Valuer map[string]interface{}

func (m c09Valuer) Value(key string) (interface{}, bool) { v, ok := m[key]; return v, ok }
func (m c09Valuer) Call(name string, args []interface{}) (interface{}, bool) {
	switch {
	case name == "same" && len(args) == 1:
		return args[0], true
	case name == "first" && len(args) == 2:
		return args[0], true
	}
	return nil, false
}

func sameValue(a, b interface{}) bool {
	switch x := a.(type) {
	case float64:
		y, ok := b.(float64)
		if !ok {
			return false
		}
		if math.IsNaN(x) || math.IsNaN(y) {
			return math.IsNaN(x) && math.IsNaN(y)
		}
		return x == y
	case nil:
		return b == nil
	}
	return a == b
}

func showVal(v interface{}) string { return fmt.Sprintf("%T(%v)", v, v) }

// c09Check runs the oracle on one spec; returns "" or a description.
func c09Eval(spec *c09node) (problem string, panicked bool, stack string) {
	p, pv, st := mon.Try(func() {
		red, ev, all := map[string]interface{}{}, map[string]interface{}{}, map[string]interface{}{}
		ref := spec.build(true, nil, nil, all)
		e := spec.build(false, red, ev, map[string]interface{}{})
		refEval := influxql.ValuerEval{Valuer: c09Valuer(all), IntegerFloatDivision: true}
		want := refEval.Eval(ref)
		before := dumpOf(e)
		reduced := influxql.Reduce(e, c09Valuer(red))
		if dumpOf(e) != before {
			problem = "Reduce modified its argument"
			return
		}
		evr := influxql.ValuerEval{Valuer: c09Valuer(ev), IntegerFloatDivision: true}
		got := evr.Eval(reduced)
		if !sameValue(want, got) {
			problem = fmt.Sprintf("Eval(e, all bindings)=%s but Eval(Reduce(e, some))=%s; reduced form: %s", showVal(want), showVal(got), reduced.String())
			return
		}
		again := influxql.Reduce(reduced, c09Valuer(red))
		if dumpOf(again) != dumpOf(reduced) {
			problem = fmt.Sprintf("Reduce is not idempotent: once %s, twice %s", reduced.String(), again.String())
			return
		}
		// the result belongs to the caller: overwriting its literals must not
		// reach the expression it was made from, nor anything reduced later
		influxql.WalkFunc(reduced, func(n influxql.Node) {
			switch l := n.(type) {
			case *influxql.BooleanLiteral:
				l.Val = !l.Val
			case *influxql.IntegerLiteral:
				l.Val = l.Val*31 + 7
			case *influxql.NumberLiteral:
				l.Val = l.Val*0.5 - 3
			case *influxql.UnsignedLiteral:
				l.Val ^= 0x55
			case *influxql.StringLiteral:
				l.Val += "~"
			}
		})
		if dumpOf(e) != before {
			problem = "overwriting the literals of Reduce's result changed the expression it was given"
			return
		}
	})
	if p {
		return fmt.Sprint(pv), true, st
	}
	return problem, false, ""
}

func c09One(c *Ctx, spec *c09node, local map[string]int64) {
	r := c.R
	r.Eval(1)
	problem, pan, st := c09Eval(spec)
	if problem == "" {
		local["agree"]++
		return
	}
	js, _ := json.Marshal(spec)
	if !pan && spec.hasReduceBoundUnsigned() {
		if p2, pan2, _ := c09Eval(spec.neutralised()); p2 == "" && !pan2 {
			if r.Known("unsigned-binding-nil", string(js)) {
				return
			}
		}
	}
	kind := "fold-changes-value"
	if pan {
		kind = "panic"
	}
	e := spec.build(true, nil, nil, map[string]interface{}{})
	r.Violation(kind, map[string]interface{}{"sub": "tree", "spec": json.RawMessage(js), "input": e.String(), "why": problem, "stack": st})
}

var c09vals = map[string][]string{
	"I": {"0", "1", "-1", "2", "-2", "9223372036854775807", "-9223372036854775808", "7"},
	"U": {"0", "1", "9223372036854775807", "9223372036854775808", "18446744073709551615", "3"},
	"F": {"0", "-0", "0.5", "-0.5", "1e300", "-1e300", "NaN", "+Inf", "-Inf", "2", "9223372036854775808"},
	"B": {"true", "false"},
	// also strings that look almost like dates: only the zero-padded spelling is a
	// date, the others are plain strings (each denotes a different day, so no two
	// different spellings here name one instant)
	"S": {"", "a", "b", "2000-1-1", "2000-01-1", "2000-1-01", "2000-01-02", "2000-1-3", "20000-01-01", "2000-01-01x"},
}

type c09rule struct {
	op         string
	k1, k2, kr string
}

var c09rules []c09rule

func numResult(op, a, b string) string {
	if a == "F" || b == "F" {
		return "F"
	}
	if a == "U" || b == "U" {
		return "U"
	}
	if op == "/" {
		return "F"
	}
	return "I"
}

func init() {
	Registry["C09"] = checkC09
	nums := []string{"I", "U", "F"}
	ints := []string{"I", "U"}
	for _, a := range nums {
		for _, b := range nums {
			for _, op := range []string{"+", "-", "*", "/", "%"} {
				c09rules = append(c09rules, c09rule{op, a, b, numResult(op, a, b)})
			}
			for _, op := range []string{"=", "!=", "<", "<=", ">", ">="} {
				c09rules = append(c09rules, c09rule{op, a, b, "B"})
			}
		}
	}
	for _, a := range ints {
		for _, b := range ints {
			for _, op := range []string{"&", "|", "^"} {
				c09rules = append(c09rules, c09rule{op, a, b, numResult(op, a, b)})
			}
		}
	}
	for _, op := range []string{"AND", "OR", "&", "|", "^", "=", "!="} {
		c09rules = append(c09rules, c09rule{op, "B", "B", "B"})
	}
	for _, op := range []string{"=", "!="} {
		c09rules = append(c09rules, c09rule{op, "S", "S", "B"})
	}
}

var c09wheres = []string{"lit", "reduce", "eval"}

func genTree(rg *mon.Rng, kind string, depth int, ctr *int) *c09node {
	leaf := depth <= 0 || rg.P(0.3)
	if !leaf && rg.P(0.1) {
		// a pure function of its (first) argument, known to the valuers
		if rg.Bool() {
			return &c09node{Op: "same", L: genTree(rg, kind, depth-1, ctr)}
		}
		return &c09node{Op: "first", L: genTree(rg, kind, depth-1, ctr), R: genTree(rg, []string{"I", "U", "F", "B", "S"}[rg.Intn(5)], depth-2, ctr)}
	}
	if !leaf {
		var cands []c09rule
		for _, ru := range c09rules {
			if ru.kr == kind {
				cands = append(cands, ru)
			}
		}
		if len(cands) > 0 {
			ru := cands[rg.Intn(len(cands))]
			n := &c09node{Op: ru.op, L: genTree(rg, ru.k1, depth-1, ctr), R: genTree(rg, ru.k2, depth-1, ctr)}
			if rg.P(0.25) {
				return &c09node{Op: "()", L: n}
			}
			return n
		}
	}
	*ctr++
	vals := c09vals[kind]
	n := &c09node{Kind: kind, Val: vals[rg.Intn(len(vals))], Where: c09wheres[rg.Intn(3)], Name: fmt.Sprintf("%s%d", map[string]string{"I": "i", "U": "u", "F": "f", "B": "b", "S": "s"}[kind], *ctr)}
	if n.Where != "lit" && rg.P(0.2) {
		n.Cast = map[string][]string{"I": {"integer", "field"}, "U": {"unsigned", "field"}, "F": {"float", "field"}, "B": {"boolean", "field"}, "S": {"string", "tag", "tag", "field"}}[kind][rg.Intn(2+2*b2i(kind == "S"))]
	}
	if kind == "I" && rg.P(0.3) {
		n.Val = strconv.FormatInt(int64(rg.Uint64()>>uint(rg.Intn(64))), 10)
	}
	if kind == "F" && rg.P(0.3) {
		n.Val = strconv.FormatFloat(rg.NormFloat64()*math.Pow(10, float64(rg.Range(-3, 12))), 'g', -1, 64)
	}
	return n
}

func b2i(b bool) int {
	if b {
		return 1
	}
	return 0
}

func checkC09(c *Ctx) (string, bool, []string) {
	r := c.R
	rule := "exhaustive cells: every well-typed (operator, left kind, right kind) x boundary values x 3x3 placements (literal / bound through Reduce / bound at evaluation); random typed trees to depth 6 with parentheses; division and modulo by zero; time-arithmetic grid (timestamp forms x +,- x durations, differences, comparisons, now(), three zones, each clock-and-zone supplied through four differently stacked valuers). Non-trivial = at least one operator; distinct by serialised spec."
	assume := []string{"well-typed = boolean operators on booleans, arithmetic/ordering on numbers (any mix of integer, unsigned, float), bitwise on integer/unsigned or booleans, equality on like kinds", "reference value = ValuerEval with IntegerFloatDivision over all bindings"}
	if c.Replay != nil {
		local := map[string]int64{}
		switch replayStr(c, "sub") {
		case "tree":
			b, _ := json.Marshal(c.Replay["spec"])
			var spec c09node
			if json.Unmarshal(b, &spec) == nil {
				c09One(c, &spec, local)
			}
		case "time":
			c09TimeAll(c, replayStr(c, "input"))
		}
		return rule, false, assume
	}
	// 1. exhaustive cells
	type cell struct {
		ru     c09rule
		v1, v2 string
	}
	var cells []cell
	for _, ru := range c09rules {
		for _, v1 := range c09vals[ru.k1] {
			for _, v2 := range c09vals[ru.k2] {
				cells = append(cells, cell{ru, v1, v2})
			}
		}
	}
	mon.Parallel(len(cells), c.Workers, func(i int) {
		local := map[string]int64{}
		ce := cells[i]
		for _, w1 := range c09wheres {
			for _, w2 := range c09wheres {
				spec := &c09node{Op: ce.ru.op,
					L: &c09node{Kind: ce.ru.k1, Val: ce.v1, Where: w1, Name: "x"},
					R: &c09node{Kind: ce.ru.k2, Val: ce.v2, Where: w2, Name: "y"}}
				c09One(c, spec, local)
				local["cell."+ce.ru.op+"."+ce.ru.k1+ce.ru.k2]++
				// absolute oracle: division and modulo by zero give zero
				if (ce.ru.op == "/" || (ce.ru.op == "%" && ce.ru.k1 != "F" && ce.ru.k2 != "F")) && (ce.v2 == "0" || ce.v2 == "-0") {
					red, ev := map[string]interface{}{}, map[string]interface{}{}
					e := spec.build(false, red, ev, map[string]interface{}{})
					if !(spec.hasReduceBoundUnsigned()) {
						evr := influxql.ValuerEval{Valuer: influxql.MapValuer(ev), IntegerFloatDivision: true}
						got := evr.Eval(influxql.Reduce(e, influxql.MapValuer(red)))
						zero := false
						switch z := got.(type) {
						case int64:
							zero = z == 0
						case uint64:
							zero = z == 0
						case float64:
							zero = z == 0
						}
						if !zero {
							js, _ := json.Marshal(spec)
							r.Violation("division-by-zero-not-zero", map[string]interface{}{"sub": "tree", "spec": json.RawMessage(js), "input": e.String(), "why": "result " + showVal(got)})
						}
						local["absolute.div-mod-by-zero"]++
					}
				}
			}
		}
		js, _ := json.Marshal(ce)
		r.DistinctStr(string(js) + ce.ru.op + ce.ru.k1 + ce.ru.k2 + ce.v1 + "|" + ce.v2)
		r.MergeCounts(local)
	})
	r.Count("cells.enumerated", int64(len(cells)*9))
	// 2. random trees
	ntree := c.N(30000, 1000000)
	mon.Parallel(ntree, c.Workers, func(i int) {
		rg := mon.NewRng(c.Seed, "c09.tree", i)
		local := map[string]int64{}
		ctr := 0
		kind := rg.Pick("B", "B", "I", "U", "F")
		spec := genTree(rg, kind, rg.Range(2, 6), &ctr)
		if spec.Op == "" {
			return
		}
		c09One(c, spec, local)
		local["random-trees"]++
		js, _ := json.Marshal(spec)
		r.DistinctStr(string(js))
		if i < 5 {
			e := spec.build(true, nil, nil, map[string]interface{}{})
			r.Sample(map[string]interface{}{"expr_all_vars": e.String(), "spec": json.RawMessage(js)})
		}
		r.MergeCounts(local)
	})
	// 3. time arithmetic
	c09TimeAll(c, "")
	for _, ru := range c09rules {
		r.Require(r.Counter("cell."+ru.op+"."+ru.k1+ru.k2) > 0, "cell never run")
	}
	r.Require(r.Counter("agree") > 0 && r.Counter("time.checked") > 0, "nothing agreed")
	return rule, false, assume
}

// ---- time arithmetic ------------------------------------------------------

type c09ts struct {
	text string // source spelling of the timestamp operand
	t    time.Time
	zone bool // interpreted in the valuer's zone
}

// c09rfc writes t with the zone's offset, or in UTC where the offset has
// seconds (local mean time before standard time), which RFC3339 cannot express.
func c09rfc(t time.Time, zone *time.Location) string {
	if _, off := t.In(zone).Zone(); off%60 != 0 {
		return t.UTC().Format(time.RFC3339Nano)
	}
	return t.In(zone).Format(time.RFC3339Nano)
}

func c09TimeAll(c *Ctx, only string) {
	r := c.R
	ny, _ := time.LoadLocation("America/New_York")
	kol, _ := time.LoadLocation("Asia/Kolkata")
	// two zones that share a name but not an offset (zone names are not unique)
	locs := []*time.Location{nil, ny, kol, time.FixedZone("XST", 5*3600+1800), time.FixedZone("XST", -3*3600)}
	now := time.Date(2021, 3, 14, 1, 59, 26, 535897932, time.UTC)
	insts := []time.Time{
		time.Date(2000, 1, 1, 0, 0, 0, 0, time.UTC),
		time.Date(1999, 12, 31, 23, 59, 59, 999999000, time.UTC),
		time.Date(2021, 3, 14, 2, 30, 0, 0, time.UTC),
		time.Date(1970, 1, 1, 0, 0, 0, 1, time.UTC),
		time.Date(2262, 1, 1, 0, 0, 0, 0, time.UTC),
		// outside the range of 64-bit nanosecond timestamps: still instants
		time.Date(1500, 6, 1, 0, 0, 0, 0, time.UTC),
		time.Date(2300, 1, 1, 12, 0, 0, 0, time.UTC),
		time.Date(9999, 6, 30, 23, 59, 59, 0, time.UTC),
		time.Date(2262, 4, 11, 23, 47, 17, 0, time.UTC),
		time.Date(1677, 9, 21, 0, 12, 43, 0, time.UTC),
		// exactly 2^63 and 2^64 nanoseconds after 2000-01-01: the distances at
		// which 64-bit nanosecond arithmetic wraps around
		time.Date(2000, 1, 1, 0, 0, 0, 0, time.UTC).Add(math.MaxInt64).Add(1),
		time.Date(2000, 1, 1, 0, 0, 0, 0, time.UTC).Add(math.MaxInt64).Add(math.MaxInt64).Add(2),
	}
	durs := []time.Duration{0, 1, -1, time.Hour, -time.Hour, 7 * 24 * time.Hour, 1500 * time.Millisecond}
	fmtDur := func(d time.Duration) string {
		if d < 0 {
			return "-" + influxql.FormatDuration(-d)
		}
		return influxql.FormatDuration(d)
	}
	var n, bad int64
	check := func(text string, valuer influxql.Valuer, want influxql.Expr) {
		if only != "" && only != text {
			return
		}
		n++
		r.Eval(1)
		r.DistinctStr("time|" + text + fmt.Sprint(valuer))
		var got influxql.Expr
		p, pv, st := mon.Try(func() {
			e, err := influxql.ParseExpr(text)
			if err != nil {
				panic("harness: time expression does not parse: " + text + ": " + err.Error())
			}
			got = influxql.Reduce(e, valuer)
		})
		if p {
			bad++
			r.Violation("panic-in-time-fold", map[string]interface{}{"sub": "time", "input": text, "why": fmt.Sprint(pv), "stack": st})
			return
		}
		if dumpOf(got) != dumpOf(want) {
			bad++
			r.Violation("time-arithmetic-not-exact", map[string]interface{}{"sub": "time", "input": text, "why": fmt.Sprintf("folds to %s, want %s", got.String(), want.String())})
		}
	}
	for li0 := 0; li0 < len(locs)*4; li0++ {
		li, loc, shape := li0/4, locs[li0/4], li0%4
		if loc == nil && shape > 2 {
			continue
		}
		// the same clock and zone, supplied through differently stacked valuers
		var valuer influxql.Valuer = &influxql.NowValuer{Now: now, Location: loc}
		switch shape {
		case 1:
			valuer = influxql.MultiValuer(influxql.MapValuer{"x": int64(1)}, &influxql.NowValuer{Now: now, Location: loc})
		case 2:
			valuer = influxql.MultiValuer(influxql.MultiValuer(influxql.MapValuer{"x": int64(1)}), &influxql.NowValuer{Now: now, Location: loc})
			if loc == nil {
				// no zone: the clock's reading may be carried in any location (as
				// time.Now() carries the process's), the zone is still UTC
				valuer = &influxql.NowValuer{Now: now.In(ny)}
			}
		case 3:
			valuer = influxql.MultiValuer(&influxql.NowValuer{Now: now}, influxql.MultiValuer(influxql.MapValuer{}, &influxql.NowValuer{Now: now.Add(time.Hour), Location: loc}))
		}
		zone := time.UTC
		if loc != nil {
			zone = loc
		}
		var tss []c09ts
		for _, t := range insts {
			tss = append(tss,
				c09ts{"'" + t.Format(time.RFC3339Nano) + "'", t, false},
				c09ts{"'" + c09rfc(t, zone) + "'", t, false},
				c09ts{"'" + t.In(zone).Format("2006-01-02 15:04:05.999999") + "'", t.Truncate(time.Microsecond), true},
			)
			day := time.Date(t.In(zone).Year(), t.In(zone).Month(), t.In(zone).Day(), 0, 0, 0, 0, zone)
			tss = append(tss, c09ts{"'" + day.Format("2006-01-02") + "'", day, true})
			if li == 0 && t.Year() < 2262 && t.Year() > 1678 {
				tss = append(tss, c09ts{strconv.FormatInt(t.UnixNano(), 10), t, false})
			}
		}
		tss = append(tss, c09ts{"now()", now, false})
		for _, a := range tss {
			isInt := a.text[0] != '\'' && a.text != "now()"
			for _, d := range durs {
				ds := fmtDur(d)
				if !isInt || true {
					check(a.text+" + "+ds, valuer, &influxql.TimeLiteral{Val: a.t.Add(d)})
					check(a.text+" - "+ds, valuer, &influxql.TimeLiteral{Val: a.t.Add(-d)})
				}
				if !isInt && d >= 0 {
					check(ds+" + "+a.text, valuer, &influxql.TimeLiteral{Val: a.t.Add(d)})
				}
				if !isInt {
					// the duration written as a plain count of nanoseconds, on
					// either side
					ns := strconv.FormatInt(int64(d), 10)
					if d >= 0 {
						check(ns+" + "+a.text, valuer, &influxql.TimeLiteral{Val: a.t.Add(d)})
						check(a.text+" + "+ns, valuer, &influxql.TimeLiteral{Val: a.t.Add(d)})
						check(a.text+" - "+ns, valuer, &influxql.TimeLiteral{Val: a.t.Add(-d)})
					}
				}
			}
			for _, b := range tss {
				aInt := a.text[0] != '\'' && a.text != "now()"
				bInt := b.text[0] != '\'' && b.text != "now()"
				if aInt || bInt {
					continue
				}
				if d := a.t.Sub(b.t); d != math.MaxInt64 && d != math.MinInt64 {
					// (a difference that does not fit in a duration has no exact value)
					check(a.text+" - "+b.text, valuer, &influxql.DurationLiteral{Val: d})
				}
				for _, op := range []string{"=", "!=", "<", "<=", ">", ">="} {
					var w bool
					switch op {
					case "=":
						w = a.t.Equal(b.t)
					case "!=":
						w = !a.t.Equal(b.t)
					case "<":
						w = a.t.Before(b.t)
					case "<=":
						w = !a.t.After(b.t)
					case ">":
						w = a.t.After(b.t)
					case ">=":
						w = !a.t.Before(b.t)
					}
					check(a.text+" "+op+" "+b.text, valuer, &influxql.BooleanLiteral{Val: w})
				}
			}
		}
	}
	// two different timestamps whose texts have the same length and the same
	// 32-bit checksum, folded one after the other under one zone
	if only == "" {
		for ki, kind := range mon.SumKinds {
			for fi, layout := range []string{time.RFC3339, "2006-01-02 15:04:05"} {
				mkT := func(i int) time.Time {
					return time.Unix(int64(mon.Hash64(fmt.Sprint(c.Seed, ki, fi, i))%7000000000), 0).UTC()
				}
				a, b, ok := mon.Collide(kind, func(i int) string { return mkT(i).Format(layout) }, 1<<21)
				if !ok {
					r.Count("time.same-checksum.no-pair-found", 1)
					continue
				}
				ta, _ := time.Parse(layout, a)
				tb, _ := time.Parse(layout, b)
				for _, v := range []influxql.Valuer{&influxql.NowValuer{Now: now}, &influxql.NowValuer{Now: now, Location: time.UTC}} {
					check("'"+a+"' + 1h", v, &influxql.TimeLiteral{Val: ta.Add(time.Hour)})
					check("'"+b+"' + 1h", v, &influxql.TimeLiteral{Val: tb.Add(time.Hour)})
					check("'"+a+"' - '"+b+"'", v, &influxql.DurationLiteral{Val: ta.Sub(tb)})
					check("'"+b+"' > '"+a+"'", v, &influxql.BooleanLiteral{Val: tb.After(ta)})
				}
				r.Count("time.same-checksum.pairs", 1)
			}
		}
	}
	r.Count("time.checked", n)
	r.Count("time.mismatch", bad)
	r.Sample(map[string]string{"time_expr": "'2000-01-01T00:00:00Z' + 1h", "expected_fold": "'2000-01-01T01:00:00Z'"})
}
