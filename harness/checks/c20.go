package checks

import (
	"fmt"
	"regexp"
	"strings"

	"github.com/influxdata/influxql"
	"verifharness/mon"
)

// C20 — result column names are complete, stable and unambiguous.
//
// Oracle: a specification (constraints), not a copy of the counter algorithm,
// so any correct de-duplication scheme with numeric suffixes passes.

type c20atom struct {
	text  string
	def   string   // default (un-aliased) column name
	extra []string // extra tag columns of an un-targeted top()/bottom()
}

var c20atoms = []c20atom{
	{"a", "a", nil}, {"a_1", "a_1", nil}, {"a_2", "a_2", nil}, {"a_1_1", "a_1_1", nil}, {"b", "b", nil},
	{"mean(a)", "mean", nil}, {"mean(b)", "mean", nil}, {"a + b", "a_b", nil}, {"(a)", "a", nil}, {"1 + 1", "", nil},
	{"top(a, t, 2)", "top", []string{"t"}}, {"bottom(a, t, u, 2)", "bottom", []string{"t", "u"}},
}

var c20aliases = []string{"", "a", "a_1", "mean_1", "t"}

// the exhaustive enumeration uses the first 12 atoms and 5 aliases; random and
// long lists also use names that look like formatting directives or need quotes
var c20nExhAtoms, c20nExhAliases = len(c20atoms), len(c20aliases)

func init() {
	c20atoms = append(c20atoms,
		c20atom{`"u%"`, "u%", nil}, c20atom{`"%d"`, "%d", nil}, c20atom{`"100%s" + b`, "100%s_b", nil}, c20atom{`top(a, "t%", 2)`, "top", []string{"t%"}},
		c20atom{`"a b"`, "a b", nil}, c20atom{`mean("a b")`, "mean", nil},
		// the tag arguments of top() / bottom() wherever they stand, also last
		c20atom{`top(a, t)`, "top", []string{"t"}}, c20atom{`bottom(a, t, 2, u)`, "bottom", []string{"t", "u"}}, c20atom{`top(a, 3, t)`, "top", []string{"t"}}, c20atom{`bottom(a, t, u)`, "bottom", []string{"t", "u"}})
	c20aliases = append(c20aliases, "u%", "%d", "a b", "a%%", "%!d(MISSING)")
}

func c20quote(al string) string {
	for _, ch := range al {
		if !(ch >= 'a' && ch <= 'z' || ch >= 'A' && ch <= 'Z' || ch == '_' || ch >= '0' && ch <= '9') {
			return `"` + al + `"`
		}
	}
	return al
}

type c20col struct {
	alias string
	def   string
}

var suffixRe = regexp.MustCompile(`^(.*)_([0-9]+)$`)

type c20variant struct {
	into      bool
	omitTime  bool
	timeAlias string
}

func c20Text(fields [][2]int, v c20variant) string {
	var parts []string
	for _, f := range fields {
		s := c20atoms[f[0]].text
		if al := c20aliases[f[1]]; al != "" {
			s += " AS " + c20quote(al)
		}
		parts = append(parts, s)
	}
	t := "SELECT " + strings.Join(parts, ", ")
	if v.into {
		t += " INTO dst"
	}
	return t + " FROM m"
}

func c20One(c *Ctx, fields [][2]int, v c20variant, local map[string]int64) {
	r := c.R
	text := c20Text(fields, v)
	det := func(why string) map[string]interface{} {
		var fl []interface{}
		for _, f := range fields {
			fl = append(fl, []int{f[0], f[1]})
		}
		return map[string]interface{}{"input": text, "fields": fl, "into": v.into, "omit_time": v.omitTime, "time_alias": v.timeAlias, "why": why}
	}
	st, err, pan, pv, stk := parseQuery1(text)
	r.Eval(1)
	if pan {
		d := det(fmt.Sprint(pv))
		d["stack"] = stk
		r.Violation("panic-in-parse", d)
		return
	}
	if err != nil {
		r.Violation("field-list-rejected", det(err.Error()))
		return
	}
	sel := st.(*influxql.SelectStatement)
	sel.OmitTime = v.omitTime
	sel.TimeAlias = v.timeAlias
	before := dumpOf(sel)
	if mon.Hash64(text)%23 == 0 {
		// just before, on this goroutine: the same fields in a statement a
		// program built wrongly (its last field holds a nil reference), whose
		// ColumnNames call does not finish - the caller recovers and goes on
		bad := sel.Clone()
		bad.Fields = append(bad.Fields, &influxql.Field{Expr: (*influxql.VarRef)(nil)})
		mon.Try(func() { _ = bad.ColumnNames() })
		local["aborted-call-just-before"]++
	}
	var got, got2, got3 []string
	if p, pv, stk := mon.Try(func() {
		got = sel.ColumnNames()
		got2 = sel.ColumnNames()
		got3 = sel.Clone().ColumnNames()
	}); p {
		d := det(fmt.Sprint(pv))
		d["stack"] = stk
		r.Violation("panic-in-ColumnNames", d)
		return
	}
	local["lists"]++
	// expected columns
	var cols []c20col
	for _, f := range fields {
		a := c20atoms[f[0]]
		cols = append(cols, c20col{c20aliases[f[1]], a.def})
		if !v.into {
			for _, e := range a.extra {
				cols = append(cols, c20col{"", e})
			}
		}
	}
	off := 1
	if v.omitTime {
		off = 0
	}
	fail := func(why string) {
		r.Violation("column-names", det(fmt.Sprintf("%s; ColumnNames=%q", why, got)))
	}
	if len(got) != len(cols)+off {
		fail(fmt.Sprintf("length %d, want %d", len(got), len(cols)+off))
		return
	}
	if !v.omitTime {
		want := "time"
		if v.timeAlias != "" {
			want = v.timeAlias
		}
		if got[0] != want {
			fail(fmt.Sprintf("time column %q, want %q", got[0], want))
			return
		}
	}
	names := got[off:]
	aliasSet := map[string]int{}
	for _, cl := range cols {
		if cl.alias != "" {
			aliasSet[cl.alias]++
		}
	}
	aliasesDistinct := true
	for _, n := range aliasSet {
		if n > 1 {
			aliasesDistinct = false
		}
	}
	seenEarlier := map[string]bool{}
	for i, cl := range cols {
		n := names[i]
		switch {
		case cl.alias != "":
			if n != cl.alias {
				fail(fmt.Sprintf("column %d is %q, want explicit alias %q verbatim", i, n, cl.alias))
				return
			}
		case n == cl.def:
			// default name kept
		default:
			m := suffixRe.FindStringSubmatch(n)
			if m == nil || m[1] != cl.def {
				fail(fmt.Sprintf("column %d is %q, neither the default name %q nor %q with a numeric suffix", i, n, cl.def, cl.def))
				return
			}
			if aliasSet[cl.def] == 0 && !seenEarlier[cl.def] {
				fail(fmt.Sprintf("column %d got suffixed name %q although nothing earlier claimed %q", i, n, cl.def))
				return
			}
			local["suffixed-columns"]++
		}
		seenEarlier[n] = true
	}
	if aliasesDistinct {
		seen := map[string]int{}
		for i, n := range names {
			if j, dup := seen[n]; dup {
				fail(fmt.Sprintf("columns %d and %d are both %q although the explicit aliases are pairwise distinct", j, i, n))
				return
			}
			seen[n] = i
		}
		local["distinctness-checked"]++
	}
	if strings.Join(got, "\x00") != strings.Join(got2, "\x00") || strings.Join(got, "\x00") != strings.Join(got3, "\x00") {
		fail(fmt.Sprintf("not a pure function of the statement: second call %q, clone %q", got2, got3))
		return
	}
	if after := dumpOf(sel); after != before {
		fail("ColumnNames changed the statement")
		return
	}
	// pure function of the statement: an earlier answer (or a caller editing
	// the returned slice) must not influence the answer for a changed statement
	if len(got) > 0 {
		got[0] = "~edited-by-caller~"
	}
	sel.OmitTime = !v.omitTime
	if v.timeAlias == "" {
		sel.TimeAlias = "later"
	} else {
		sel.TimeAlias = ""
	}
	fresh, _, _, _, _ := parseQuery1(text)
	fsel := fresh.(*influxql.SelectStatement)
	fsel.OmitTime, fsel.TimeAlias = sel.OmitTime, sel.TimeAlias
	var again, want2 []string
	mon.Try(func() { again, want2 = sel.ColumnNames(), fsel.ColumnNames() })
	if strings.Join(again, "\x00") != strings.Join(want2, "\x00") {
		r.Violation("column-names", det(fmt.Sprintf("not a pure function of the statement: after changing OmitTime / TimeAlias the statement answers %q, an identical fresh statement answers %q", again, want2)))
		return
	}
	// an equal statement gives an equal answer: the printed statement parsed afresh
	if re, err, pan, _, _ := parseQuery1(sel.String()); err == nil && !pan {
		rsel := re.(*influxql.SelectStatement)
		rsel.OmitTime, rsel.TimeAlias = sel.OmitTime, sel.TimeAlias
		var a1, a2 []string
		mon.Try(func() { a1, a2 = sel.ColumnNames(), rsel.ColumnNames() })
		if strings.Join(a1, "\x00") != strings.Join(a2, "\x00") {
			r.Violation("column-names", det(fmt.Sprintf("the statement answers %q, the same statement printed (%q) and parsed afresh answers %q", a1, sel.String(), a2)))
			return
		}
		local["reparsed-equal"]++
	}
	// the names depend on the field list, not on flags kept next to it
	{
		var a1, a2 []string
		mon.Try(func() {
			a1 = sel.ColumnNames()
			sel.IsRawQuery = !sel.IsRawQuery
			a2 = sel.ColumnNames()
			sel.IsRawQuery = !sel.IsRawQuery
		})
		if strings.Join(a1, "\x00") != strings.Join(a2, "\x00") {
			r.Violation("column-names", det(fmt.Sprintf("the answer follows the IsRawQuery flag (%q with it as parsed, %q with it flipped), not the field list", a1, a2)))
			return
		}
	}
	// the expressions themselves are edited in place (every reference renamed):
	// the names follow the statement as it is now, as they do for the same
	// statement printed and parsed afresh
	influxql.WalkFunc(sel.Fields, func(n influxql.Node) {
		if vr, ok := n.(*influxql.VarRef); ok {
			vr.Val += "x"
		}
	})
	var again3, want3 []string
	if re, err, pan, _, _ := parseQuery1(sel.String()); err == nil && !pan {
		rsel := re.(*influxql.SelectStatement)
		rsel.OmitTime, rsel.TimeAlias = sel.OmitTime, sel.TimeAlias
		mon.Try(func() { again3, want3 = sel.ColumnNames(), rsel.ColumnNames() })
		if strings.Join(again3, "\x00") != strings.Join(want3, "\x00") {
			r.Violation("column-names", det(fmt.Sprintf("not a pure function of the statement: after renaming every reference in place (statement now %q) it answers %q, the same statement parsed afresh answers %q", sel.String(), again3, want3)))
			return
		}
		local["renamed-in-place"]++
	}
	local["ok"]++
}

func init() { Registry["C20"] = checkC20 }

func checkC20(c *Ctx) (string, bool, []string) {
	r := c.R
	rule := "all field lists of length <=3 (<=4 thorough) over 12 atoms x 5 alias choices, each with and without INTO; OmitTime and time-alias variants on every list of length <=2 and a sample of longer ones; random lists up to length 10 and (one in 25) of 60-140 fields, also over names that need quotes or look like formatting directives. Non-trivial = at least two fields or a top()/bottom() atom; distinct by statement text + variant."
	assume := []string{"default names: reference=its name, call=function name, arithmetic=operand names joined by '_', parenthesised=inner", "with INTO the tag arguments of top()/bottom() are not separate columns"}
	if c.Replay != nil {
		var fields [][2]int
		if fl, ok := c.Replay["fields"].([]interface{}); ok {
			for _, x := range fl {
				p := x.([]interface{})
				fields = append(fields, [2]int{int(p[0].(float64)), int(p[1].(float64))})
			}
		}
		v := c20variant{}
		v.into, _ = c.Replay["into"].(bool)
		v.omitTime, _ = c.Replay["omit_time"].(bool)
		v.timeAlias, _ = c.Replay["time_alias"].(string)
		c20One(c, fields, v, map[string]int64{})
		return rule, false, assume
	}
	per := c20nExhAtoms * c20nExhAliases
	maxLen := c.N(3, 4)
	total := 0
	pow := 1
	var offsets []int
	for l := 1; l <= maxLen; l++ {
		pow *= per
		offsets = append(offsets, total)
		total += pow
	}
	const batch = 2000
	nb := (total + batch - 1) / batch
	mon.Parallel(nb, c.Workers, func(b int) {
		local := map[string]int64{}
		for idx := b * batch; idx < (b+1)*batch && idx < total; idx++ {
			l := 1
			for l < maxLen && idx >= offsets[l] {
				l++
			}
			x := idx - offsets[l-1]
			fields := make([][2]int, l)
			for i := l - 1; i >= 0; i-- {
				f := x % per
				x /= per
				fields[i] = [2]int{f / c20nExhAliases, f % c20nExhAliases}
			}
			variants := []c20variant{{}, {into: true}}
			if l <= 2 || idx%17 == 0 {
				variants = append(variants, c20variant{omitTime: true}, c20variant{timeAlias: "x"}, c20variant{into: true, omitTime: true}, c20variant{timeAlias: "a"}, c20variant{timeAlias: " "}, c20variant{timeAlias: "\t\n"}, c20variant{timeAlias: "\u00a0"}, c20variant{timeAlias: "time"})
			}
			for vi, v := range variants {
				c20One(c, fields, v, local)
				nontrivial := l >= 2
				for _, f := range fields {
					if c20atoms[f[0]].extra != nil {
						nontrivial = true
					}
				}
				if nontrivial {
					r.Distinct(mon.Hash64(fmt.Sprintf("%d|%d", idx, vi)))
				}
			}
			if idx%50021 == 3 {
				sel, _ := influxql.ParseStatement(c20Text(fields, c20variant{}))
				r.Sample(map[string]interface{}{"statement": c20Text(fields, c20variant{}), "ColumnNames": sel.(*influxql.SelectStatement).ColumnNames()})
			}
		}
		r.MergeCounts(local)
	})
	r.Count("exhaustive.lists", int64(total))
	nrand := c.N(20000, 300000)
	mon.Parallel(nrand, c.Workers, func(i int) {
		rg := mon.NewRng(c.Seed, "c20.rand", i)
		local := map[string]int64{}
		l := rg.Range(5, 10)
		if i%25 == 0 {
			l = rg.Range(60, 140) // more columns than a machine word has bits
			local["long-lists"]++
		}
		fields := make([][2]int, l)
		for j := range fields {
			fields[j] = [2]int{rg.Intn(len(c20atoms)), rg.Intn(len(c20aliases))}
			if rg.P(0.5) {
				fields[j][1] = 0
			}
		}
		v := c20variant{into: rg.P(0.3), omitTime: rg.P(0.2)}
		if rg.P(0.2) {
			v.timeAlias = rg.Pick("x", "a", "mean", "time", "Time", "a_1", " ", "\t", "  \n", "\u00a0", " ts ", "", "0", "%d", "a b", "é", "\"q\"")
		}
		c20One(c, fields, v, local)
		r.DistinctStr(c20Text(fields, v) + fmt.Sprint(v))
		local["random-lists"]++
		r.MergeCounts(local)
	})
	// statements that come out of wildcard expansion and are edited afterwards:
	// the names are those of the statement as it is now (its clone, and the
	// same statement expanded afresh and edited the same way, say the same)
	{
		tm := &testMapper{fields: map[string]map[string]influxql.DataType{"m": {"value1": influxql.Float, "value2": influxql.Integer, "a": influxql.Float}}, tags: map[string][]string{"m": {"host", "region"}}}
		edits := []struct {
			name string
			f    func(s *influxql.SelectStatement)
		}{
			{"alias", func(s *influxql.SelectStatement) { s.Fields[len(s.Fields)-1].Alias = "renamed" }},
			{"omit-time", func(s *influxql.SelectStatement) { s.OmitTime = true }},
			{"reslice", func(s *influxql.SelectStatement) { s.Fields = s.Fields[1:] }},
			{"time-alias", func(s *influxql.SelectStatement) { s.TimeAlias = "ts" }},
			{"RewriteTimeFields", func(s *influxql.SelectStatement) { s.RewriteTimeFields() }},
			{"append", func(s *influxql.SelectStatement) {
				s.Fields = append(s.Fields, &influxql.Field{Expr: &influxql.VarRef{Val: "value1"}})
			}},
		}
		for _, q := range []string{"SELECT *, a FROM m", "SELECT time AS t0, * FROM m", "SELECT mean(*), a AS value1 FROM m", "SELECT /value/, host FROM m GROUP BY *", "SELECT a, a FROM m"} {
			for _, ed := range edits {
				mk := func() *influxql.SelectStatement {
					st, err := influxql.ParseStatement(q)
					if err != nil {
						return nil
					}
					o, err := st.(*influxql.SelectStatement).RewriteFields(tm)
					if err != nil {
						return nil
					}
					return o
				}
				s1, s2 := mk(), mk()
				if s1 == nil || s2 == nil {
					continue
				}
				var first, after, viaClone, fresh []string
				if p, pv, stk := mon.Try(func() {
					first = s1.ColumnNames()
					ed.f(s1)
					after = s1.ColumnNames()
					viaClone = s1.Clone().ColumnNames()
					ed.f(s2) // never asked before the edit
					fresh = s2.ColumnNames()
				}); p {
					r.Violation("panic-in-ColumnNames", map[string]interface{}{"input": q, "why": fmt.Sprint(pv), "stack": stk})
					continue
				}
				r.Eval(1)
				if fmt.Sprintf("%q", after) != fmt.Sprintf("%q", viaClone) || fmt.Sprintf("%q", after) != fmt.Sprintf("%q", fresh) {
					r.Violation("column-names", map[string]interface{}{"input": q, "why": fmt.Sprintf("expanded by RewriteFields (names %q), then edited (%s): the statement answers %q, its clone %q, the same statement expanded and edited without having been asked before %q", first, ed.name, after, viaClone, fresh)})
					continue
				}
				r.Count("expanded-then-edited", 1)
			}
		}
	}
	// one name hundreds of times: every column still has a name of its own
	for _, n := range []int{255, 256, 257, 300, 1100} {
		fs := strings.Repeat("value, ", n-1) + "value"
		for _, q := range []string{"SELECT " + fs + " FROM m", "SELECT value AS value_7, value AS value_255, value AS value_256, " + fs + " FROM m"} {
			st, err := influxql.ParseStatement(q)
			if err != nil {
				r.Violation("field-list-rejected", map[string]interface{}{"input": trunc(q, 120), "why": err.Error()})
				continue
			}
			cn := st.(*influxql.SelectStatement).ColumnNames()
			r.Eval(1)
			seen := map[string]int{}
			dup := ""
			for i, name := range cn {
				if j, ok := seen[name]; ok {
					dup = fmt.Sprintf("columns %d and %d are both named %q", j, i, name)
					break
				}
				seen[name] = i
			}
			if dup != "" || len(cn) != len(st.(*influxql.SelectStatement).Fields)+1 {
				r.Violation("column-names", map[string]interface{}{"input": trunc(q, 120), "why": fmt.Sprintf("%d fields named value: %d names, %s", n, len(cn), dup)})
				continue
			}
			r.Count("one-name-hundreds-of-times", 1)
		}
	}
	// the time alias obtained the way a user gets it: SELECT time AS x + RewriteTimeFields
	for _, q := range []string{"SELECT time AS ts, a, a FROM m", "SELECT a, time AS ts, mean(a) AS a FROM m"} {
		st, err := influxql.ParseStatement(q)
		if err != nil {
			r.Violation("time-alias-statement-rejected", map[string]interface{}{"input": q, "why": err.Error()})
			continue
		}
		sel := st.(*influxql.SelectStatement)
		sel.RewriteTimeFields()
		cn := sel.ColumnNames()
		r.Eval(1)
		if len(cn) != 3 || cn[0] != "ts" {
			r.Violation("time-alias-not-first", map[string]interface{}{"input": q, "why": fmt.Sprintf("ColumnNames after RewriteTimeFields = %q", cn)})
		}
		r.Count("time-alias-via-RewriteTimeFields", 1)
	}
	// statements built through the AST constructors, where one node may stand
	// in two places: the names are those of the equal statement in which every
	// place has its own node (its clone, its printed form parsed afresh)
	{
		a, b, t := &influxql.VarRef{Val: "a"}, &influxql.VarRef{Val: "b"}, &influxql.VarRef{Val: "t"}
		call := &influxql.Call{Name: "mean", Args: []influxql.Expr{a}}
		built := []*influxql.SelectStatement{
			{Fields: influxql.Fields{{Expr: &influxql.BinaryExpr{Op: influxql.MUL, LHS: a, RHS: a}}, {Expr: a}, {Expr: &influxql.BinaryExpr{Op: influxql.ADD, LHS: &influxql.BinaryExpr{Op: influxql.ADD, LHS: b, RHS: b}, RHS: call}}}},
			{Fields: influxql.Fields{{Expr: call}, {Expr: call}, {Expr: &influxql.BinaryExpr{Op: influxql.DIV, LHS: call, RHS: call}, Alias: "mean"}}},
			{Fields: influxql.Fields{{Expr: &influxql.Call{Name: "top", Args: []influxql.Expr{a, t, t, &influxql.IntegerLiteral{Val: 2}}}}, {Expr: t}, {Expr: &influxql.ParenExpr{Expr: &influxql.ParenExpr{Expr: t}}}}},
			{Fields: influxql.Fields{{Expr: &influxql.BinaryExpr{Op: influxql.SUB, LHS: &influxql.ParenExpr{Expr: a}, RHS: &influxql.ParenExpr{Expr: a}}}, {Expr: a, Alias: "a_a"}}},
		}
		for bi, sel := range built {
			sel.Sources = influxql.Sources{&influxql.Measurement{Name: "m"}}
			sel.IsRawQuery = bi != 1
			var own, cl, re []string
			mon.Try(func() {
				own = sel.ColumnNames()
				cl = sel.Clone().ColumnNames()
				if st, err := influxql.ParseStatement(sel.String()); err == nil {
					re = st.(*influxql.SelectStatement).ColumnNames()
				}
			})
			r.Eval(1)
			if fmt.Sprint(own) != fmt.Sprint(cl) || fmt.Sprint(own) != fmt.Sprint(re) {
				r.Violation("column-names", map[string]interface{}{"input": sel.String(), "fields": []interface{}{}, "why": fmt.Sprintf("a statement built with one node in two places answers %q, its clone %q, its printed form parsed afresh %q", own, cl, re)})
			}
			r.Count("built-with-shared-nodes", 1)
		}
	}
	r.Require(r.Counter("suffixed-columns") > 0, "no clash was ever resolved with a suffix")
	r.Require(r.Counter("distinctness-checked") > 0, "distinctness never checked")
	r.SetExtra("exhaustive_note", fmt.Sprintf("all %d field lists of length <=%d over 12 atoms x 5 aliases enumerated completely", total, maxLen))
	return rule, false, assume
}
