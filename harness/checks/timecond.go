package checks

import (
	"fmt"
	"strconv"
	"strings"
	"sync"
	"time"

	"github.com/influxdata/influxql"
	"verifharness/mon"
)

// Shared by C10 and C18: a generator of WHERE conditions made of time bounds
// and other predicates, with the harness's own reference evaluator.

// tcNode is a condition tree in the harness's own representation.
type tcNode struct {
	op       string // "AND", "OR", "()", "time", "pred"
	l, r     *tcNode
	text     string // leaf source text
	timeOp   string // normalised so that it reads  t <timeOp> instant
	instant  int64
	overflow bool // the bound sits at an int64 extreme with a strict operator
	pred     func(p tcPoint) bool
}

type tcPoint struct {
	t      int64
	host   string
	region string
	n      int64
	x      float64
}

func (p tcPoint) valuer() map[string]interface{} {
	// "Name" and "Key" are a tag and a field whose names are keywords but for
	// their letter case
	return map[string]interface{}{"host": p.host, "region": p.region, "n": p.n, "x": p.x, "Name": p.host, "Key": p.n}
}

// tcRefTypes lists every reference of e as name::type (time references left out).
func tcRefTypes(e influxql.Expr) map[string]bool {
	out := map[string]bool{}
	influxql.WalkFunc(e, func(n influxql.Node) {
		if v, ok := n.(*influxql.VarRef); ok && !strings.EqualFold(v.Val, "time") {
			out[v.Val+"::"+v.Type.String()] = true
		}
	})
	return out
}

func (n *tcNode) render() string {
	switch n.op {
	case "AND", "OR":
		return n.l.render() + " " + n.op + " " + n.r.render()
	case "()":
		return "(" + n.l.render() + ")"
	}
	return n.text
}

// eval is the reference meaning of the condition on a point.
func (n *tcNode) eval(p tcPoint) bool {
	switch n.op {
	case "AND":
		return n.l.eval(p) && n.r.eval(p)
	case "OR":
		return n.l.eval(p) || n.r.eval(p)
	case "()":
		return n.l.eval(p)
	case "time":
		switch n.timeOp {
		case "=":
			return p.t == n.instant
		case "<":
			return p.t < n.instant
		case "<=":
			return p.t <= n.instant
		case ">":
			return p.t > n.instant
		case ">=":
			return p.t >= n.instant
		}
	}
	return n.pred(p)
}

// evalNonTime evaluates with every time leaf taken as true.
func (n *tcNode) evalNonTime(p tcPoint) bool {
	switch n.op {
	case "AND":
		return n.l.evalNonTime(p) && n.r.evalNonTime(p)
	case "OR":
		return n.l.evalNonTime(p) || n.r.evalNonTime(p)
	case "()":
		return n.l.evalNonTime(p)
	case "time":
		return true
	}
	return n.pred(p)
}

func (n *tcNode) timeLeaves(out *[]*tcNode) {
	switch n.op {
	case "AND", "OR":
		n.l.timeLeaves(out)
		n.r.timeLeaves(out)
	case "()":
		n.l.timeLeaves(out)
	case "time":
		*out = append(*out, n)
	}
}

var tcInstants = []int64{
	0, 1, -1, 946684800000000000, 946684800000000001, 946684799999999999, 1609459200000000000, 1615687166535897932,
	influxql.MinTime + 1, influxql.MinTime + 2, influxql.MaxTime, influxql.MaxTime - 1, -6795364578871345152 + 1000, 9000000000000000000,
	978307200000000000, 946684800000000000 + 86400000000000,
}

type tcCtx struct {
	rg     *mon.Rng
	loc    *time.Location // zone of the valuer (nil = UTC, no zone)
	now    time.Time
	useNow bool
	// forms restricts literal forms (nil = all)
	extremes bool
}

var tcDottedOnce sync.Once
var tcDotted bool

// tcDottedTime: does the library read a column spelled with U+0130 (whose
// lower case is i) as the time column? The property does not say; the spelling
// is used only when ConditionExpr itself takes it for time, and then every
// other function has to agree with it.
func tcDottedTime() bool {
	tcDottedOnce.Do(func() {
		mon.Try(func() {
			e, err := influxql.ParseExpr("\"t\u0130me\" >= 5")
			if err != nil {
				return
			}
			rest, tr, err := influxql.ConditionExpr(e, nil)
			tcDotted = err == nil && rest == nil && !tr.Min.IsZero() && tr.Min.UnixNano() == 5
		})
	})
	return tcDotted
}

var tcTransCache sync.Map

// tcZone loads a zone by name (New York when the name is not installed).
func tcZone(name string) *time.Location {
	if l, err := time.LoadLocation(name); err == nil {
		return l
	}
	l, _ := time.LoadLocation("America/New_York")
	return l
}

// tcNearTransitions lists instants from three hours before to fourteen hours
// after each change of the zone's UTC offset in 2000 and 2024 whose wall-clock
// reading in the zone is unambiguous (it denotes that instant and no other).
func tcNearTransitions(zone *time.Location) []int64 {
	if v, ok := tcTransCache.Load(zone.String()); ok {
		return v.([]int64)
	}
	const layout = "2006-01-02 15:04:05"
	var out []int64
	for _, year := range []int{2000, 2024} {
		t := time.Date(year, 1, 1, 0, 0, 0, 0, time.UTC)
		_, prev := t.In(zone).Zone()
		for h := 1; h < 366*24; h++ {
			t2 := t.Add(time.Duration(h) * time.Hour)
			_, off := t2.In(zone).Zone()
			if off == prev {
				continue
			}
			tr := t2
			for m := 1; m <= 60; m++ {
				if _, o := t2.Add(-time.Duration(m) * time.Minute).In(zone).Zone(); o == prev {
					tr = t2.Add(-time.Duration(m-1) * time.Minute)
					break
				}
			}
			shift := time.Duration(off-prev) * time.Second
			for _, dm := range []int{-181, -121, -61, -1, 61, 90, 121, 181, 239, 301, 421, 601, 721, 779, 841} {
				cand := tr.Add(time.Duration(dm) * time.Minute)
				txt := cand.In(zone).Format(layout)
				back, err := time.ParseInLocation(layout, txt, zone)
				if err != nil || !back.Equal(cand) || cand.Add(shift).In(zone).Format(layout) == txt || cand.Add(-shift).In(zone).Format(layout) == txt {
					continue
				}
				out = append(out, cand.UnixNano())
			}
			prev = off
		}
	}
	tcTransCache.Store(zone.String(), out)
	return out
}

var flipOp = map[string]string{"=": "=", "<": ">", "<=": ">=", ">": "<", ">=": "<="}

// timeLeaf builds one time comparison.
func (c *tcCtx) timeLeaf() *tcNode {
	rg := c.rg
	zone := time.UTC
	if c.loc != nil {
		zone = c.loc
	}
	inst := tcInstants[rg.Intn(len(tcInstants))]
	if rg.P(0.3) {
		inst = 946684800000000000 + int64(rg.Intn(1000))*3600000000000 + int64(rg.Intn(3)-1)
	}
	if c.loc != nil && rg.P(0.25) {
		// wall-clock readings next to a change of the zone's offset
		if tr := tcNearTransitions(zone); len(tr) > 0 {
			inst = tr[rg.Intn(len(tr))] + int64(rg.Intn(3)-1)*1000
		}
	}
	var lit string
	form := rg.Intn(8)
	if form >= 6 && !c.useNow {
		form = rg.Intn(6)
	}
	t := time.Unix(0, inst).UTC()
	switch form {
	case 0: // integer nanoseconds
		lit = strconv.FormatInt(inst, 10)
		if inst < 0 {
			lit = "-" + strconv.FormatUint(uint64(-inst), 10)
		}
		if c.extremes && rg.P(0.2) {
			if rg.Bool() {
				inst, lit = 9223372036854775807, "9223372036854775807"
			} else {
				inst, lit = -9223372036854775808, "-9223372036854775808"
			}
		}
	case 1: // RFC3339Nano, UTC
		lit = "'" + t.Format(time.RFC3339Nano) + "'"
	case 2: // RFC3339Nano with the zone's offset
		if _, off := t.In(zone).Zone(); off%60 != 0 {
			// historical local-mean-time offsets have seconds, which RFC3339
			// cannot express: the text would denote another instant
			lit = "'" + t.Format(time.RFC3339Nano) + "'"
		} else {
			lit = "'" + t.In(zone).Format(time.RFC3339Nano) + "'"
		}
	case 3: // date only: midnight in the valuer's zone
		tz := t.In(zone)
		day := time.Date(tz.Year(), tz.Month(), tz.Day(), 0, 0, 0, 0, zone)
		if day.UnixNano() <= influxql.MinTime+1 || day.Year() < 1678 || day.Year() > 2261 {
			day = time.Date(2000, 1, 2, 0, 0, 0, 0, zone)
		}
		inst = day.UnixNano()
		lit = "'" + day.Format("2006-01-02") + "'"
	case 4: // date and time, microseconds, in the valuer's zone
		tz := t.In(zone).Truncate(time.Microsecond)
		if tz.Year() < 1678 || tz.Year() > 2261 {
			tz = time.Date(2000, 1, 2, 3, 4, 5, 678000, zone)
		}
		inst = tz.UnixNano()
		lit = "'" + tz.Format("2006-01-02 15:04:05.999999") + "'"
	case 5: // duration since the epoch
		d := []int64{0, 1, 1000000000, 3600000000000, 86400000000000 * 7, 1500000000}[rg.Intn(6)]
		inst = d
		lit = influxql.FormatDuration(time.Duration(d))
	case 6: // now()
		inst = c.now.UnixNano()
		lit = "now()"
	default: // now() +- d
		d := []int64{1, 3600000000000, 600000000000, 86400000000000, 1500000000}[rg.Intn(5)]
		if rg.Bool() {
			inst = c.now.UnixNano() - d
			lit = "now() - " + influxql.FormatDuration(time.Duration(d))
		} else {
			inst = c.now.UnixNano() + d
			lit = "now() + " + influxql.FormatDuration(time.Duration(d))
		}
	}
	op := []string{"=", "<", "<=", ">", ">="}[rg.Intn(5)]
	name := rg.Pick("time", "time", "time", "TIME", "Time", "tIME", "time", "time", "time", "TIME", "Time", "tIME", `"time"`, `"Time"`, "time::integer", `"time"::field`, "TIME::tag", "time::float", "Time::string")
	if tcDottedTime() && rg.P(0.1) {
		name = rg.Pick("\"t\u0130me\"", "\"T\u0130ME\"")
	}
	n := &tcNode{op: "time", instant: inst}
	if rg.P(0.6) {
		n.text = name + " " + op + " " + lit
		n.timeOp = op
	} else {
		n.text = lit + " " + op + " " + name
		n.timeOp = flipOp[op]
	}
	if (inst == 9223372036854775807 && n.timeOp == ">") || (inst == -9223372036854775808 && n.timeOp == "<") {
		n.overflow = true
	}
	return n
}

var tcHosts = []string{"a", "b"}
var tcRegions = []string{"us", "eu"}

// pred builds one non-time predicate over host / region / n / x.
func (c *tcCtx) pred() *tcNode {
	rg := c.rg
	switch rg.Intn(14) {
	case 10:
		// references that carry a cast
		k := rg.Intn(4)
		text := []string{"host::tag = 'a'", "n::integer > 1", "x::float < 1.5", "region::tag != 'us'"}[k]
		return &tcNode{op: "pred", text: text, pred: [](func(p tcPoint) bool){
			func(p tcPoint) bool { return p.host == "a" }, func(p tcPoint) bool { return p.n > 1 },
			func(p tcPoint) bool { return p.x < 1.5 }, func(p tcPoint) bool { return p.region != "us" }}[k]}
	case 11:
		// a tag and a field named like keywords in another letter case
		if rg.Bool() {
			return &tcNode{op: "pred", text: `"Name" = 'a'`, pred: func(p tcPoint) bool { return p.host == "a" }}
		}
		return &tcNode{op: "pred", text: `1 < "Key"`, pred: func(p tcPoint) bool { return 1 < p.n }}
	case 12, 13:
		// arithmetic with signed operands: the reference meaning is the
		// library's own evaluation of the predicate as written
		text := rg.Pick("n & -n = 2", "6 / -n = -3", "n * -(n + 1) < 0", "x / -x < 0", "7 % -n = 1", "n - -n > 2", "(n | 1) & -n = 2", "x * +x > 2", "n / +2 >= 1", "6 & +n = 2")
		e, err := influxql.ParseExpr(text)
		if err != nil {
			panic("harness: " + text + ": " + err.Error())
		}
		return &tcNode{op: "pred", text: text, pred: func(p tcPoint) bool {
			return influxql.EvalBool(influxql.CloneExpr(e), p.valuer())
		}}
	case 8, 9:
		// a comparison of constants: always true or always false, whatever the point
		k := rg.Intn(10)
		text := []string{"1 = 1", "'all' = 'all'", "2 > 1", "1.5 < 2", "true", "1 = 2", "'a' != 'a'", "2 < 1", "false", "3 >= 3"}[k]
		val := []bool{true, true, true, true, true, false, false, false, false, true}[k]
		return &tcNode{op: "pred", text: text, pred: func(p tcPoint) bool { return val }}
	case 0:
		v := tcHosts[rg.Intn(2)]
		return &tcNode{op: "pred", text: "host = '" + v + "'", pred: func(p tcPoint) bool { return p.host == v }}
	case 1:
		v := tcRegions[rg.Intn(2)]
		return &tcNode{op: "pred", text: "region != '" + v + "'", pred: func(p tcPoint) bool { return p.region != v }}
	case 2:
		return &tcNode{op: "pred", text: "host =~ /^a$/", pred: func(p tcPoint) bool { return p.host == "a" }}
	case 3:
		return &tcNode{op: "pred", text: "region !~ /^u/", pred: func(p tcPoint) bool { return !strings.HasPrefix(p.region, "u") }}
	case 4:
		k := int64(rg.Intn(3))
		return &tcNode{op: "pred", text: fmt.Sprintf("n > %d", k), pred: func(p tcPoint) bool { return p.n > k }}
	case 5:
		k := int64(rg.Intn(3))
		return &tcNode{op: "pred", text: fmt.Sprintf("%d >= n", k), pred: func(p tcPoint) bool { return k >= p.n }}
	case 6:
		return &tcNode{op: "pred", text: "x < 1.5", pred: func(p tcPoint) bool { return p.x < 1.5 }}
	default:
		v := tcHosts[rg.Intn(2)]
		return &tcNode{op: "pred", text: "'" + v + "' = host", pred: func(p tcPoint) bool { return p.host == v }}
	}
}

// nonTimeTree builds a sub-tree of non-time predicates (may contain OR).
func (c *tcCtx) nonTimeTree(depth int) *tcNode {
	if depth <= 0 || c.rg.P(0.5) {
		return c.pred()
	}
	op := c.rg.Pick("AND", "OR")
	l, r := c.nonTimeTree(depth-1), c.nonTimeTree(depth-1)
	// OR binds weaker than AND: parenthesise an OR child of AND; a sub-tree
	// with OR that is joined to time bounds by AND is parenthesised by the caller
	wrap := func(n *tcNode) *tcNode {
		if op == "AND" && n.op == "OR" {
			return &tcNode{op: "()", l: n}
		}
		return n
	}
	n := &tcNode{op: op, l: wrap(l), r: wrap(r)}
	if c.rg.P(0.2) {
		return &tcNode{op: "()", l: n}
	}
	return n
}

// condition builds a conjunction tree of time leaves and non-time sub-trees.
func (c *tcCtx) condition(ntime, nother int) *tcNode {
	var items []*tcNode
	for i := 0; i < ntime; i++ {
		items = append(items, c.timeLeaf())
	}
	for i := 0; i < nother; i++ {
		t := c.nonTimeTree(2)
		if t.op == "OR" {
			t = &tcNode{op: "()", l: t}
		}
		items = append(items, t)
	}
	if len(items) == 0 {
		return nil
	}
	c.rg.Shuffle(len(items), func(i, j int) { items[i], items[j] = items[j], items[i] })
	// random binary AND tree with random parenthesisation
	for len(items) > 1 {
		i := c.rg.Intn(len(items) - 1)
		n := &tcNode{op: "AND", l: items[i], r: items[i+1]}
		var m *tcNode = n
		if c.rg.P(0.3) {
			m = &tcNode{op: "()", l: n}
		}
		items = append(items[:i], append([]*tcNode{m}, items[i+2:]...)...)
	}
	return items[0]
}

// points lists the probe points: every bound +-{0,1ns}, far values, all tag
// combinations, two values per field.
func tcPoints(leaves []*tcNode, extra []int64) []tcPoint {
	ts := map[int64]bool{influxql.MinTime + 5: true, influxql.MaxTime - 5: true, 1234567890: true}
	add := func(v int64) {
		ts[v] = true
		if v < 9223372036854775807 {
			ts[v+1] = true
		}
		if v > -9223372036854775808 {
			ts[v-1] = true
		}
	}
	for _, l := range leaves {
		add(l.instant)
	}
	for _, v := range extra {
		add(v)
	}
	var out []tcPoint
	for t := range ts {
		if t < influxql.MinTime || t > influxql.MaxTime {
			continue // not a timestamp a point can have
		}
		for _, h := range tcHosts {
			for _, rg := range tcRegions {
				for _, n := range []int64{0, 2} {
					for _, x := range []float64{1.0, 2.0} {
						out = append(out, tcPoint{t: t, host: h, region: rg, n: n, x: x})
					}
				}
			}
		}
	}
	return out
}
