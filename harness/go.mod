module verifharness

go 1.22

require (
	github.com/influxdata/influxql v0.0.0
	google.golang.org/protobuf v1.33.0
)

replace github.com/influxdata/influxql => /repo
